------------------------------ MODULE RouterGen -----------------------------
(***************************************************************************)
(* Generator of per-OnCompletion call configurations: every function from  *)
(* the five approval OnCompletions to {NEVER, CALL, CREATE, ALL} is one    *)
(* behaviour (4^5 = 1024).  The harness uses them as MethodConfigs and as  *)
(* bare-call configurations.                                               *)
(***************************************************************************)
EXTENDS Naturals, Sequences, TLC, Json
VARIABLES c, done
vars == <<c, done>>
OCs == {"no_op", "opt_in", "close_out", "update_application", "delete_application"}
CCs == {"NEVER", "CALL", "CREATE", "ALL"}
Init == c \in [OCs -> CCs] /\ done = FALSE
Emit == ~done /\ done' = TRUE /\ UNCHANGED c /\ PrintT("G|" \o ToJson(c))
Next == Emit
Spec == Init /\ [][Next]_vars
=============================================================================
