------------------------------- MODULE Static -------------------------------
(***************************************************************************)
(* All-paths abstract execution of emitted TEAL (C04 termination, C05      *)
(* stack and type discipline) and legality of every instruction (C04).     *)
(*                                                                         *)
(* The abstract machine is the AVM with values replaced by their types     *)
(* u / b / a(ny); `bz`/`bnz` have both successors; `callsub L` is replaced *)
(* by L's declared signature (pops its arguments, pushes its results);     *)
(* every routine is started at its own label with its declared arguments   *)
(* on an otherwise empty stack, so popping below them is an underflow into *)
(* the caller's values.  TLC explores every reachable abstract state of    *)
(* every program of the batch.                                             *)
(* Batch entry: [texts |-> Seq([teal, R |-> label -> [na, nr],             *)
(*    H |-> Seq(height at pc or -1), version, mode, entries |-> Seq(pc)])] *)
(* H is a witness computed by the harness (first-visit heights); the       *)
(* invariant Len(stack) = H[pc] makes TLC verify that it is inductive.     *)
(***************************************************************************)
EXTENDS TealLegal, TLC, Json, IOUtils, FiniteSets

Batch == JsonDeserialize(IOEnv.BATCH_FILE)

VARIABLES tid, k, rt, pc, st, fr, bad
vars == <<tid, k, rt, pc, st, fr, bad>>

T == Batch[tid].texts[k]
P == T.teal
NoFrame == [on |-> FALSE, h |-> 0, A |-> 0, R |-> 0]
Compat(want, have) == want = "a" \/ have = "a" \/ want = have
Chars(s) == [j \in 1..Len(s) |-> SubSeq(s, j, j)]
TopN(s, n) == SubSeq(s, Len(s) - n + 1, Len(s))
PopN(s, n) == SubSeq(s, 1, Len(s) - n)
RoutineLabels == DOMAIN T.R
EntryPcOf(label) == CHOOSE j \in 1..Len(P) : P[j].op = "label" /\ P[j].s = label
IsRoutineEntry(j) == j <= Len(P) /\ P[j].op = "label" /\ P[j].s \in RoutineLabels /\ P[j].s # "_"
SigOf(j) == T.R[P[j].s]

\* result of one abstract step from (pc, st, fr): [ok, why, next |-> set of [pc, st, fr]]
Ok(S) == [why |-> "", next |-> S]
Bad(w) == [why |-> w, next |-> {}]
Fall(s2, f2) == {[pc |-> pc + 1, st |-> s2, fr |-> f2]}

Generic(ins, pops, pushes) ==
  LET n == Len(pops) IN
  IF Len(st) < n THEN Bad("underflow")
  ELSE IF \E j \in 1..n : ~Compat(pops[j], TopN(st, n)[j]) THEN Bad("type")
  ELSE Ok(Fall(PopN(st, n) \o pushes, fr))

Step ==
  LET ins == P[pc]
      op == ins.op
      n == Len(st)
      row == OpRow(op)
  IN
  IF op \notin OpNames THEN Bad("unknown-opcode")
  ELSE IF row[4] # "*" /\ row[5] # "*" /\ op \notin {"b", "bz", "bnz", "return", "err", "retsub", "callsub"}
       THEN Generic(ins, Chars(row[4]), Chars(row[5]))
  ELSE CASE op \in {"txn", "txna", "gtxn", "gtxna", "global", "itxn", "itxna", "gitxn", "gitxna"} -> Ok(Fall(Append(st, FieldRow(ins)[3]), fr))
    [] op \in {"txnas", "gtxnas", "gtxns", "gtxnsa", "itxnas", "gitxnas"} -> Generic(ins, <<"u">>, <<FieldRow(ins)[3]>>)
    [] op = "gtxnsas" -> Generic(ins, <<"u", "u">>, <<FieldRow(ins)[3]>>)
    [] op = "b" -> Ok({[pc |-> ins.t, st |-> st, fr |-> fr]})
    [] op \in {"bz", "bnz"} ->
         IF n < 1 THEN Bad("underflow") ELSE IF ~Compat("u", st[n]) THEN Bad("type")
         ELSE Ok({[pc |-> ins.t, st |-> PopN(st, 1), fr |-> fr], [pc |-> pc + 1, st |-> PopN(st, 1), fr |-> fr]})
    [] op = "err" -> Ok({})
    [] op = "return" -> IF n < 1 THEN Bad("underflow") ELSE IF ~Compat("u", st[n]) THEN Bad("type") ELSE Ok({})
    [] op = "dup" -> IF n < 1 THEN Bad("underflow") ELSE Ok(Fall(Append(st, st[n]), fr))
    [] op = "dup2" -> IF n < 2 THEN Bad("underflow") ELSE Ok(Fall(st \o <<st[n - 1], st[n]>>, fr))
    [] op = "dupn" -> IF n < 1 THEN Bad("underflow") ELSE Ok(Fall(st \o [j \in 1..ins.i[1] |-> st[n]], fr))
    [] op = "popn" -> IF n < ins.i[1] THEN Bad("underflow") ELSE Ok(Fall(PopN(st, ins.i[1]), fr))
    [] op = "swap" -> IF n < 2 THEN Bad("underflow") ELSE Ok(Fall(PopN(st, 2) \o <<st[n], st[n - 1]>>, fr))
    [] op = "dig" -> IF n < ins.i[1] + 1 THEN Bad("underflow") ELSE Ok(Fall(Append(st, st[n - ins.i[1]]), fr))
    [] op = "bury" -> IF ins.i[1] = 0 \/ n < ins.i[1] + 1 THEN Bad("underflow") ELSE Ok(Fall(PopN([st EXCEPT ![n - ins.i[1]] = st[n]], 1), fr))
    [] op = "cover" -> LET d == ins.i[1] IN IF n < d + 1 THEN Bad("underflow")
                       ELSE Ok(Fall(SubSeq(st, 1, n - d - 1) \o <<st[n]>> \o SubSeq(st, n - d, n - 1), fr))
    [] op = "uncover" -> LET d == ins.i[1] IN IF n < d + 1 THEN Bad("underflow")
                         ELSE Ok(Fall(SubSeq(st, 1, n - d - 1) \o SubSeq(st, n - d + 1, n) \o <<st[n - d]>>, fr))
    [] op = "select" -> IF n < 3 THEN Bad("underflow") ELSE IF ~Compat("u", st[n]) THEN Bad("type")
                        ELSE Ok(Fall(Append(PopN(st, 3), IF st[n - 1] = st[n - 2] THEN st[n - 1] ELSE "a"), fr))
    [] op = "setbit" -> IF n < 3 THEN Bad("underflow") ELSE IF ~Compat("u", st[n]) \/ ~Compat("u", st[n - 1]) THEN Bad("type")
                        ELSE Ok(Fall(Append(PopN(st, 3), st[n - 2]), fr))
    [] op \in {"pushints", "pushbytess"} -> Ok(Fall(st \o [j \in 1..Len(ins.cs) |-> IF op = "pushints" THEN "u" ELSE "b"], fr))
    [] op = "proto" -> IF fr.on THEN Bad("proto-twice") ELSE IF n < ins.i[1] THEN Bad("underflow")
                       ELSE Ok(Fall(st, [on |-> TRUE, h |-> n, A |-> ins.i[1], R |-> ins.i[2]]))
    [] op = "frame_dig" -> IF ~fr.on THEN Bad("frame-without-proto")
                           ELSE LET idx == fr.h + ins.i[1] IN
                                IF ins.i[1] < 0 - fr.A \/ idx < 0 \/ idx >= n THEN Bad("frame-range") ELSE Ok(Fall(Append(st, st[idx + 1]), fr))
    [] op = "frame_bury" -> IF ~fr.on THEN Bad("frame-without-proto")
                            ELSE LET idx == fr.h + ins.i[1] IN
                                 IF n < 1 \/ ins.i[1] < 0 - fr.A \/ idx < 0 \/ idx >= n - 1 THEN Bad("frame-range")
                                 ELSE Ok(Fall(PopN([st EXCEPT ![idx + 1] = st[n]], 1), fr))
    [] op = "callsub" ->
         IF ins.s \notin RoutineLabels THEN Bad("call-of-unknown-signature")
         ELSE LET sg == T.R[ins.s] IN
              IF n < sg.na THEN Bad("underflow") ELSE Ok(Fall(PopN(st, sg.na) \o [j \in 1..sg.nr |-> "a"], fr))
    [] op = "retsub" ->
         LET sg == IF rt > 0 THEN SigOf(rt) ELSE [na |-> 0, nr |-> 0] IN
         IF rt = 0 THEN Bad("retsub-in-main")
         ELSE IF fr.on
              THEN (IF fr.A # sg.na \/ fr.R # sg.nr THEN Bad("proto-mismatch")
                    ELSE IF n < fr.h + fr.R THEN Bad("retsub-underflow") ELSE Ok({}))
              ELSE (IF n # sg.nr THEN Bad("retsub-height") ELSE Ok({}))
    [] OTHER -> Bad("no-rule:" \o op)

Init == /\ tid \in 1..Len(Batch) /\ k \in 1..Len(Batch[tid].texts)
        /\ \E e \in 1..Len(Batch[tid].texts[k].entries) :
             LET j == Batch[tid].texts[k].entries[e] IN
             /\ rt = (IF j = 1 THEN 0 ELSE j) /\ pc = j
             /\ st = IF j = 1 THEN <<>> ELSE [q \in 1..Batch[tid].texts[k].R[Batch[tid].texts[k].teal[j].s].na |-> "a"]
        /\ fr = NoFrame /\ bad = ""

Report(w) == PrintT("X|" \o ToString(tid) \o "|" \o ToString(k) \o "|" \o ToString(pc) \o "|" \o w)

Next ==
  /\ bad = ""
  /\ IF pc > Len(P) THEN Report("falls-off-the-end") /\ bad' = "end" /\ UNCHANGED <<tid, k, rt, pc, st, fr>>
     ELSE IF pc # rt /\ pc # 1 /\ IsRoutineEntry(pc) THEN Report("falls-into-routine:" \o P[pc].s) /\ bad' = "fall" /\ UNCHANGED <<tid, k, rt, pc, st, fr>>
     ELSE IF T.H[pc] >= 0 /\ Len(st) # T.H[pc] THEN Report("height " \o ToString(Len(st)) \o "/" \o ToString(T.H[pc])) /\ bad' = "height" /\ UNCHANGED <<tid, k, rt, pc, st, fr>>
     ELSE LET r == Step IN
          IF r.why # "" THEN Report(r.why) /\ bad' = r.why /\ UNCHANGED <<tid, k, rt, pc, st, fr>>
          ELSE \E nx \in r.next : pc' = nx.pc /\ st' = nx.st /\ fr' = nx.fr /\ UNCHANGED <<tid, k, rt, bad>>
Spec == Init /\ [][Next]_vars

\* ---- legality (C04): evaluated once per text, in a separate specification over the same batch ----
RECURSIVE FirstIllegal(_, _, _, _)
FirstIllegal(prog, j, version, mode) ==
  IF j > Len(prog) THEN ""
  ELSE LET w == IllegalWhy(prog[j], j, version, mode) IN IF w # "" THEN ToString(j) \o ":" \o w ELSE FirstIllegal(prog, j + 1, version, mode)
LegalClause(t) ==
  IF Len(t.teal) = 0 \/ t.teal[1].op # "pragma" \/ t.teal[1].i # <<t.version>> THEN "1:missing-or-wrong-pragma"
  ELSE IF t.problems # <<>> THEN "0:" \o t.problems[1]
  ELSE FirstIllegal(t.teal, 2, t.version, t.mode)
LInit == /\ tid \in 1..Len(Batch) /\ k \in 1..Len(Batch[tid].texts) /\ rt = 0 /\ pc = 0 /\ st = <<>> /\ fr = NoFrame /\ bad = ""
LNext == /\ bad = "" /\ bad' = "done" /\ UNCHANGED <<tid, k, rt, pc, st, fr>>
         /\ PrintT("L|" \o ToString(tid) \o "|" \o ToString(k) \o "|" \o LegalClause(T))
LSpec == LInit /\ [][LNext]_vars

Discipline == bad \in {"", "done"}
=============================================================================
