------------------------------ MODULE TealLex -------------------------------
(***************************************************************************)
(* The concrete syntax of one TEAL source line, transcribed from the       *)
(* assembler's line grammar (independently of PyTeal): a line is a         *)
(* sequence of bytes; Tokens(line) is the list of tokens the assembler     *)
(* sees (";" is a token of its own: the statement separator).              *)
(*  - tokens are separated by space / tab;                                 *)
(*  - a '"' at the start of a token opens a string literal in which        *)
(*    blanks, "//" and ";" are ordinary characters; it is closed by a '"'  *)
(*    that is not preceded by a backslash;                                 *)
(*  - "//" outside a string and outside base64(...) starts a comment that  *)
(*    runs to the end of the line;                                         *)
(*  - "base64(" / "b64(" switch off comment and separator recognition      *)
(*    until ")" (the base64 alphabet contains '/').                        *)
(* StringLit(tok) decodes a quoted literal with exactly the escapes        *)
(* \n \r \t \\ \" \xHH; Hex / Base64 / Base32 / Decimal decode the other   *)
(* literal spellings.  Results are [ok, v].                                *)
(***************************************************************************)
EXTENDS BigNat

SP == 32   TAB == 9   QUOTE == 34   BSL == 92   SLASH == 47   LPAR == 40   RPAR == 41   SEMI == 59
IsSpace(c) == c = SP \/ c = TAB
Str(s) == s          \* byte sequences are written as tuples of codes
B64 == <<98, 97, 115, 101, 54, 52>>        \* "base64"
B64s == <<98, 54, 52>>                     \* "b64"
B32 == <<98, 97, 115, 101, 51, 50>>        \* "base32"
B32s == <<98, 51, 50>>                     \* "b32"

\* Two readings of "a quote closes the string" are in circulation: the assembler's own (the quote is not directly
\* preceded by a backslash) and the escape-aware one (it is preceded by an even number of backslashes).  They agree on
\* every literal in which each quote and each backslash of the text is escaped; a text on which they differ is ambiguous.
RECURSIVE BslRun(_, _)
BslRun(line, i) == IF i >= 1 /\ line[i] = BSL THEN 1 + BslRun(line, i - 1) ELSE 0
StaysOpen(line, i, strict) == IF strict THEN BslRun(line, i - 1) % 2 = 1 ELSE line[i - 1] = BSL

\* scanner state: i position, start of the current token (0 = none), inS, inB, toks
RECURSIVE ScanG(_, _, _, _, _, _, _)
Scan(line, i, start, inS, inB, toks) == ScanG(line, i, start, inS, inB, toks, FALSE)
ScanG(line, i, start, inS, inB, toks, strict) ==
  LET n == Len(line)
      flush(j) == IF start > 0 /\ j > start THEN Append(toks, SubSeq(line, start, j - 1)) ELSE toks
  IN
  IF i > n THEN flush(n + 1)
  ELSE LET c == line[i] IN
  IF ~IsSpace(c)
  THEN LET st == IF start = 0 THEN i ELSE start IN
       IF c = QUOTE
       THEN IF ~inS
            THEN ScanG(line, i + 1, st, (i = 1 \/ IsSpace(line[i - 1])), inB, toks, strict)
            ELSE ScanG(line, i + 1, st, StaysOpen(line, i, strict), inB, toks, strict)
       ELSE IF c = SLASH /\ i < n /\ line[i + 1] = SLASH /\ ~inB /\ ~inS
            THEN (IF st # i THEN Append(toks, SubSeq(line, st, i - 1)) ELSE toks)        \* comment: rest of line ignored
       ELSE IF c = LPAR /\ ~inS /\ SubSeq(line, st, i - 1) \in {B64, B64s}
            THEN ScanG(line, i + 1, st, inS, TRUE, toks, strict)
       ELSE IF c = RPAR /\ inB /\ ~inS
            THEN ScanG(line, i + 1, st, inS, FALSE, toks, strict)
       ELSE IF c = SEMI /\ ~inS /\ ~inB
            THEN ScanG(line, i + 1, 0, FALSE, FALSE,
                      Append(IF st # i THEN Append(toks, SubSeq(line, st, i - 1)) ELSE toks, <<SEMI>>), strict)
       ELSE ScanG(line, i + 1, st, inS, inB, toks, strict)
  ELSE \* a blank ends the token unless inside a string
       IF inS THEN ScanG(line, i + 1, start, inS, inB, toks, strict)
       ELSE LET tok == IF start > 0 THEN SubSeq(line, start, i - 1) ELSE <<>>
                inB2 == IF inB THEN FALSE ELSE tok \in {B64, B64s}
            IN ScanG(line, i + 1, 0, FALSE, inB2, flush(i), strict)

Tokens(line) == Scan(line, 1, 0, FALSE, FALSE, <<>>)
TokensStrict(line) == ScanG(line, 1, 0, FALSE, FALSE, <<>>, TRUE)

\* statements of a line: token lists between ";" tokens, empty ones dropped
RECURSIVE SplitSemi(_, _, _, _)
SplitSemi(toks, i, cur, acc) ==
  IF i > Len(toks) THEN (IF cur = <<>> THEN acc ELSE Append(acc, cur))
  ELSE IF toks[i] = <<SEMI>> THEN SplitSemi(toks, i + 1, <<>>, IF cur = <<>> THEN acc ELSE Append(acc, cur))
  ELSE SplitSemi(toks, i + 1, Append(cur, toks[i]), acc)
Statements(line) == SplitSemi(Tokens(line), 1, <<>>, <<>>)
StatementsStrict(line) == SplitSemi(TokensStrict(line), 1, <<>>, <<>>)

\* ---- literals ---------------------------------------------------------------------------
LOk(v) == [ok |-> TRUE, v |-> v]
LBad == [ok |-> FALSE, v |-> <<>>]

HexVal(c) == IF c >= 48 /\ c <= 57 THEN c - 48 ELSE IF c >= 97 /\ c <= 102 THEN c - 87 ELSE IF c >= 65 /\ c <= 70 THEN c - 55 ELSE 0 - 1

\* quoted literal, tok includes both quotes
RECURSIVE StrR(_, _, _)
StrR(t, p, acc) ==           \* p ranges over 2..Len(t)-1
  IF p >= Len(t) THEN LOk(acc)
  ELSE LET c == t[p] IN
       IF c = BSL
       THEN IF p + 1 >= Len(t) THEN LBad
            ELSE LET e == t[p + 1] IN
                 CASE e = 110 -> StrR(t, p + 2, Append(acc, 10))
                   [] e = 114 -> StrR(t, p + 2, Append(acc, 13))
                   [] e = 116 -> StrR(t, p + 2, Append(acc, 9))
                   [] e = BSL -> StrR(t, p + 2, Append(acc, BSL))
                   [] e = QUOTE -> StrR(t, p + 2, Append(acc, QUOTE))
                   [] e = 120 -> IF p + 3 >= Len(t) \/ HexVal(t[p + 2]) < 0 \/ HexVal(t[p + 3]) < 0 THEN LBad
                                 ELSE StrR(t, p + 4, Append(acc, 16 * HexVal(t[p + 2]) + HexVal(t[p + 3])))
                   [] OTHER -> LBad
       ELSE StrR(t, p + 1, Append(acc, c))
StringLit(t) == IF Len(t) < 2 \/ t[1] # QUOTE \/ t[Len(t)] # QUOTE THEN LBad ELSE StrR(t, 2, <<>>)

RECURSIVE HexR(_, _, _)
HexR(t, p, acc) == IF p > Len(t) THEN LOk(acc)
                   ELSE IF p = Len(t) \/ HexVal(t[p]) < 0 \/ HexVal(t[p + 1]) < 0 THEN LBad
                   ELSE HexR(t, p + 2, Append(acc, 16 * HexVal(t[p]) + HexVal(t[p + 1])))
HexLit(t) == IF Len(t) < 2 \/ t[1] # 48 \/ t[2] # 120 THEN LBad ELSE HexR(t, 3, <<>>)      \* 0x...

\* base64 (standard alphabet, '=' padding) and base32 (RFC 4648, padding optional): bit-stream decoding
B64Val(c) == IF c >= 65 /\ c <= 90 THEN c - 65 ELSE IF c >= 97 /\ c <= 122 THEN c - 71 ELSE IF c >= 48 /\ c <= 57 THEN c + 4
             ELSE IF c = 43 THEN 62 ELSE IF c = 47 THEN 63 ELSE 0 - 1
B32Val(c) == IF c >= 65 /\ c <= 90 THEN c - 65 ELSE IF c >= 50 /\ c <= 55 THEN c - 24 ELSE 0 - 1

\* acc: decoded bytes, buf: pending bits value, nb: number of pending bits, w: bits per symbol
RECURSIVE BitsR(_, _, _, _, _, _)
BitsR(t, p, w, buf, nb, acc) ==
  IF p > Len(t) THEN LOk(acc)
  ELSE LET c == t[p] IN
       IF c = 61 THEN (IF \A q \in p..Len(t) : t[q] = 61 THEN LOk(acc) ELSE LBad)      \* padding to the end
       ELSE LET v == IF w = 6 THEN B64Val(c) ELSE B32Val(c) IN
            IF v < 0 THEN LBad
            ELSE LET b2 == buf * (2 ^ w) + v
                     n2 == nb + w
                 IN IF n2 >= 8 THEN BitsR(t, p + 1, w, b2 % (2 ^ (n2 - 8)), n2 - 8, Append(acc, b2 \div (2 ^ (n2 - 8))))
                    ELSE BitsR(t, p + 1, w, b2, n2, acc)
Base64Lit(t) == BitsR(t, 1, 6, 0, 0, <<>>)
Base32Lit(t) == BitsR(t, 1, 5, 0, 0, <<>>)

Inner(t, k) == SubSeq(t, k + 2, Len(t) - 1)      \* text between "name(" of length k+1 and ")"
HasPrefix(t, p) == Len(t) >= Len(p) /\ SubSeq(t, 1, Len(p)) = p

\* a byte literal in any assembler spelling; toks = the argument tokens of byte / pushbytes
BytesLit(toks) ==
  IF toks = <<>> THEN LBad
  ELSE LET t == toks[1] IN
  IF t[1] = QUOTE THEN (IF Len(toks) = 1 THEN StringLit(t) ELSE LBad)
  ELSE IF HasPrefix(t, <<48, 120>>) THEN (IF Len(toks) = 1 THEN HexLit(t) ELSE LBad)
  ELSE IF HasPrefix(t, B64 \o <<LPAR>>) /\ t[Len(t)] = RPAR /\ Len(toks) = 1 THEN Base64Lit(Inner(t, 6))
  ELSE IF HasPrefix(t, B64s \o <<LPAR>>) /\ t[Len(t)] = RPAR /\ Len(toks) = 1 THEN Base64Lit(Inner(t, 3))
  ELSE IF HasPrefix(t, B32 \o <<LPAR>>) /\ t[Len(t)] = RPAR /\ Len(toks) = 1 THEN Base32Lit(Inner(t, 6))
  ELSE IF HasPrefix(t, B32s \o <<LPAR>>) /\ t[Len(t)] = RPAR /\ Len(toks) = 1 THEN Base32Lit(Inner(t, 3))
  ELSE IF t \in {B64, B64s} /\ Len(toks) = 2 THEN Base64Lit(toks[2])
  ELSE IF t \in {B32, B32s} /\ Len(toks) = 2 THEN Base32Lit(toks[2])
  ELSE LBad

\* decimal integer -> digits in base Base (normalised), must fit 64 bits
RECURSIVE DecR(_, _, _)
DecR(t, p, acc) == IF p > Len(t) THEN LOk(acc)
                   ELSE IF t[p] < 48 \/ t[p] > 57 THEN LBad
                   ELSE DecR(t, p + 1, Add(MulD(acc, 10), FromInt(t[p] - 48)))
DecimalLit(t) == IF t = <<>> THEN LBad
                 ELSE LET r == DecR(t, 1, <<>>) IN IF r.ok /\ Len(r.v) <= 8 THEN r ELSE LBad
=============================================================================
