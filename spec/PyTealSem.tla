----------------------------- MODULE PyTealSem ------------------------------
(***************************************************************************)
(* The source language: a big-step meaning of PyTeal expression trees,     *)
(* written from the documented meaning of each constructor.  It shares     *)
(* only value-level operators (Vals.tla) and context reads (Ctx.tla) with  *)
(* the target machine; it knows nothing of stacks, slots, labels, blocks   *)
(* or calling conventions.                                                 *)
(*                                                                         *)
(* A recipe node is the uniform record [k, t, n, s, a, i]:                 *)
(*   k kind, t declared TealType ("u" "b" "n" "a"), n constant payload     *)
(*   (digits / bytes), s name (operator, field), a children, i small ints  *)
(*   (variable id, routine id, indices).                                   *)
(* A program is [main |-> node, rt |-> Seq(routine)], a routine is         *)
(*   [pk |-> Seq("v" | "r"), ret |-> "n" | "u" | "b", body |-> node,       *)
(*    locals |-> Seq(var id)].                                             *)
(* Evaluation result: [st, v, sig, why] with sig in                        *)
(*   ok | break | continue | ret | exit | fail | fuel.                      *)
(* Decisions fixed here (DESIGN.md 3.4): n-ary operators are left folds;   *)
(* And/Or evaluate every operand; exactly one arm of If; Cond takes the    *)
(* first true arm else fails; Assert checks left to right; variables in a  *)
(* routine's `locals` are per activation, all others are global cells;     *)
(* "r" parameters alias the caller's cell.                                 *)
(***************************************************************************)
EXTENDS Ctx

None == [t |-> "n", v |-> <<>>]

\* state threaded through evaluation
S0(ctx, fuel) == [cells |-> <<>>, nextAct |-> 1, logs |-> <<>>, gs |-> InitGS(ctx), ls |-> <<>>,
                  bx |-> <<>>, writes |-> <<>>, itx |-> <<>>, sub |-> <<>>, fuel |-> fuel, mv |-> <<>>, dyn |-> <<>>]

SGet(f, k, d) == IF k \in DOMAIN f THEN f[k] ELSE d
SPut(f, k, v) == [x \in (DOMAIN f) \cup {k} |-> IF x = k THEN v ELSE f[x]]
SDel(f, k) == [x \in (DOMAIN f) \ {k} |-> f[x]]

SR(st, v) == [st |-> st, v |-> v, sig |-> "ok", why |-> ""]
SSig(st, v, sig, why) == [st |-> st, v |-> v, sig |-> sig, why |-> why]
SFail(st, why) == SSig(st, None, "fail", why)

\* lift an operator result of Vals/Ctx (single pushed value)
Lift(st, r) == IF r.ok THEN SR(st, r.v[1]) ELSE SFail(st, r.why)

\* the constructor -> operator table for constructors whose documented meaning is one operator
\* applied to the operand values in the order written.
SimpleOps == PureOps \ {"substring", "extract", "substring3", "extract3", "replace2", "replace3", "select"}

InSeq(x, s) == \E k \in 1..Len(s) : s[k] = x

\* cell key of variable v in activation env
CellKey(env, v) == IF InSeq(v, env.locals) THEN <<v, env.act>> ELSE <<v, 0>>

SLogBytes(logs) == SumLen([k \in 1..Len(logs) |-> B(logs[k])], 1)

SItxnArrayLimit(f) == CASE f = "ApplicationArgs" -> 16 [] f = "Accounts" -> 4 [] f = "Assets" -> 8
                        [] f = "Applications" -> 8 [] OTHER -> 4
SItxnArrayFields == {"ApplicationArgs", "Accounts", "Assets", "Applications", "ApprovalProgramPages",
                     "ClearStateProgramPages"}

RECURSIVE SEval(_, _, _), SEvalList(_, _, _, _, _), SFold(_, _, _, _, _, _), SLoop(_, _, _, _, _),
          SCond(_, _, _, _), SAssert(_, _, _, _), SWide(_, _, _, _, _)

\* evaluate children a[i..] left to right, collecting values; stops at the first non-ok signal
SEvalList(a, i, env, st, acc) ==
  IF i > Len(a) THEN [st |-> st, v |-> acc, sig |-> "ok", why |-> ""]
  ELSE LET r == SEval(a[i], env, st) IN
       IF r.sig # "ok" THEN r ELSE SEvalList(a, i + 1, env, r.st, Append(acc, r.v))

\* left fold of a binary operator over already evaluated values
SFold(op, vs, i, acc, st, dummy) ==
  IF i > Len(vs) THEN SR(st, acc)
  ELSE LET r == PureOp(op, <<>>, <<acc, vs[i]>>) IN
       IF ~r.ok THEN SFail(st, r.why) ELSE SFold(op, vs, i + 1, r.v[1], st, dummy)

\* While / For: cond, step (None-node for While), body
SLoop(cond, step, body, env, st) ==
  IF st.fuel = 0 THEN SSig(st, None, "fuel", "")
  ELSE LET c == SEval(cond, env, [st EXCEPT !.fuel = st.fuel - 1]) IN
       IF c.sig # "ok" THEN c
       ELSE IF c.v.t # "u" THEN SFail(c.st, "type")
       ELSE IF ~Truthy(c.v) THEN SR(c.st, None)
       ELSE LET b == SEval(body, env, c.st) IN
            IF b.sig = "break" THEN SR(b.st, None)
            ELSE IF b.sig \in {"ok", "continue"}
                 THEN IF step.k = "Nop" THEN SLoop(cond, step, body, env, b.st)
                      ELSE LET s == SEval(step, env, b.st) IN
                           IF s.sig # "ok" THEN s ELSE SLoop(cond, step, body, env, s.st)
                 ELSE b

SCond(a, i, env, st) ==
  IF i > Len(a) THEN SFail(st, "err")
  ELSE LET c == SEval(a[i], env, st) IN
       IF c.sig # "ok" THEN c
       ELSE IF c.v.t # "u" THEN SFail(c.st, "type")
       ELSE IF Truthy(c.v) THEN SEval(a[i + 1], env, c.st) ELSE SCond(a, i + 2, env, c.st)

SAssert(a, i, env, st) ==
  IF i > Len(a) THEN SR(st, None)
  ELSE LET c == SEval(a[i], env, st) IN
       IF c.sig # "ok" THEN c
       ELSE IF c.v.t # "u" THEN SFail(c.st, "type")
       ELSE IF Truthy(c.v) THEN SAssert(a, i + 1, env, c.st) ELSE SFail(c.st, "assert")

\* running product of values vs[i..] starting from acc; fails once it exceeds 128 bits
SWide(vs, i, last, acc, dummy) ==
  IF i > last THEN [ok |-> TRUE, v |-> acc]
  ELSE LET p == Mul(acc, vs[i].v) IN
       IF ~FitsDWord(p) THEN [ok |-> FALSE, v |-> <<>>] ELSE SWide(vs, i + 1, last, p, dummy)

NopNode == [k |-> "Nop", t |-> "n", n |-> <<>>, s |-> "", a |-> <<>>, i |-> <<>>]

SEval(node, env, st) ==
  LET k == node.k
      a == node.a
  IN
  CASE k = "Int" -> SR(st, U(node.n))
    [] k = "Bytes" -> SR(st, B(node.n))
    [] k = "Nop" -> SR(st, None)
    [] k = "Txn" -> Lift(st, TxnScalar(env.ctx, env.ctx.gi, node.s))
    [] k = "TxnA" -> Lift(st, TxnArray(env.ctx, env.ctx.gi, node.s, node.i[1]))
    [] k = "Gtxn" -> Lift(st, TxnScalar(env.ctx, node.i[1] + 1, node.s))
    [] k = "GtxnA" -> Lift(st, TxnArray(env.ctx, node.i[1] + 1, node.s, node.i[2]))
    [] k = "TxnAS" ->      \* array field with a computed index
         LET r == SEval(a[1], env, st) IN
         IF r.sig # "ok" THEN r ELSE IF r.v.t # "u" THEN SFail(r.st, "type")
         ELSE Lift(r.st, TxnArray(env.ctx, env.ctx.gi, node.s, IntOf(r.v)))
    [] k = "GtxnS" ->      \* group transaction chosen by a computed index, scalar field
         LET r == SEval(a[1], env, st) IN
         IF r.sig # "ok" THEN r ELSE IF r.v.t # "u" THEN SFail(r.st, "type")
         ELSE IF IntOf(r.v) < 0 THEN SFail(r.st, "range")
         ELSE Lift(r.st, TxnScalar(env.ctx, IntOf(r.v) + 1, node.s))
    [] k = "GtxnAS" ->     \* group transaction with a constant index, array field with a computed index
         LET r == SEval(a[1], env, st) IN
         IF r.sig # "ok" THEN r ELSE IF r.v.t # "u" THEN SFail(r.st, "type")
         ELSE Lift(r.st, TxnArray(env.ctx, node.i[1] + 1, node.s, IntOf(r.v)))
    [] k = "GtxnSA" ->     \* group transaction chosen by a computed index, array field with a constant index
         LET r == SEval(a[1], env, st) IN
         IF r.sig # "ok" THEN r ELSE IF r.v.t # "u" THEN SFail(r.st, "type")
         ELSE IF IntOf(r.v) < 0 THEN SFail(r.st, "range")
         ELSE Lift(r.st, TxnArray(env.ctx, IntOf(r.v) + 1, node.s, node.i[1]))
    [] k = "GtxnSAS" ->    \* both computed: the group index is evaluated first
         LET r == SEvalList(a, 1, env, st, <<>>) IN
         IF r.sig # "ok" THEN r ELSE IF r.v[1].t # "u" \/ r.v[2].t # "u" THEN SFail(r.st, "type")
         ELSE IF IntOf(r.v[1]) < 0 THEN SFail(r.st, "range")
         ELSE Lift(r.st, TxnArray(env.ctx, IntOf(r.v[1]) + 1, node.s, IntOf(r.v[2])))
    [] k = "Global" -> SR(st, GlobalRead(env.ctx, node.s))
    [] k = "LsigArg" -> Lift(st, LsigArg(env.ctx, node.i[1]))
    [] k = "Op" ->         \* one operator applied to the operand values in written order
         LET r == SEvalList(a, 1, env, st, <<>>) IN
         IF r.sig # "ok" THEN r
         ELSE LET p == PureOp(node.s, node.i, r.v) IN
              IF ~p.ok THEN SFail(r.st, p.why)
              ELSE IF Len(p.v) = 1 THEN SR(r.st, p.v[1]) ELSE SR(r.st, [t |-> "m", v |-> p.v])
    [] k = "Nary" ->       \* left fold of a binary operator, every operand evaluated first to last
         LET r == SEvalList(a, 1, env, st, <<>>) IN
         IF r.sig # "ok" THEN r
         ELSE IF Len(r.v) = 1
              THEN (IF r.v[1].t = Sig(node.s)[1] \/ Sig(node.s)[1] = "a" THEN SR(r.st, r.v[1]) ELSE SFail(r.st, "type"))
              ELSE SFold(node.s, r.v, 2, r.v[1], r.st, 0)
    [] k = "Substring" ->  \* bytes [start, end)
         LET r == SEvalList(a, 1, env, st, <<>>) IN
         IF r.sig # "ok" THEN r ELSE Lift(r.st, PureOp("substring3", <<>>, r.v))
    [] k = "Extract" ->    \* `length` bytes from start; length 0 is the empty string
         LET r == SEvalList(a, 1, env, st, <<>>) IN
         IF r.sig # "ok" THEN r ELSE Lift(r.st, PureOp("extract3", <<>>, r.v))
    [] k = "Suffix" ->     \* from start to the end
         LET r == SEvalList(a, 1, env, st, <<>>) IN
         IF r.sig # "ok" THEN r
         ELSE IF r.v[1].t # "b" \/ r.v[2].t # "u" THEN SFail(r.st, "type")
         ELSE LET s == IntOf(r.v[2]) IN
              IF s < 0 \/ s > Len(r.v[1].v) THEN SFail(r.st, "range") ELSE SR(r.st, B(Drop(r.v[1].v, s)))
    [] k = "Replace" ->
         LET r == SEvalList(a, 1, env, st, <<>>) IN
         IF r.sig # "ok" THEN r ELSE Lift(r.st, PureOp("replace3", <<>>, r.v))
    [] k = "Seq" ->
         LET r == SEvalList(a, 1, env, st, <<>>) IN
         IF r.sig # "ok" THEN r ELSE SR(r.st, IF Len(a) = 0 THEN None ELSE r.v[Len(a)])
    [] k = "If" ->
         LET c == SEval(a[1], env, st) IN
         IF c.sig # "ok" THEN c
         ELSE IF c.v.t # "u" THEN SFail(c.st, "type")
         ELSE IF Truthy(c.v) THEN SEval(a[2], env, c.st)
         ELSE IF Len(a) >= 3 THEN SEval(a[3], env, c.st) ELSE SR(c.st, None)
    [] k = "Cond" -> SCond(a, 1, env, st)
    [] k = "While" -> SLoop(a[1], NopNode, a[2], env, st)
    [] k = "For" ->
         LET s == SEval(a[1], env, st) IN
         IF s.sig # "ok" THEN s ELSE SLoop(a[2], a[3], a[4], env, s.st)
    [] k = "Break" -> SSig(st, None, "break", "")
    [] k = "Continue" -> SSig(st, None, "continue", "")
    [] k = "Assert" -> SAssert(a, 1, env, st)
    [] k = "Return" ->
         IF Len(a) = 0 THEN SSig(st, None, IF env.rid = 0 THEN "exit" ELSE "ret", "")
         ELSE LET r == SEval(a[1], env, st) IN
              IF r.sig # "ok" THEN r ELSE SSig(r.st, r.v, IF env.rid = 0 THEN "exit" ELSE "ret", "")
    [] k = "Approve" -> SSig(st, U1, "exit", "")
    [] k = "Reject" -> SSig(st, U0, "exit", "")
    [] k = "Err" -> SFail(st, "err")
    [] k = "Pop" ->
         LET r == SEval(a[1], env, st) IN IF r.sig # "ok" THEN r ELSE SR(r.st, None)
    [] k = "Log" ->
         LET r == SEval(a[1], env, st) IN
         IF r.sig # "ok" THEN r
         ELSE IF r.v.t # "b" THEN SFail(r.st, "type")
         ELSE IF Len(r.st.logs) >= 32 \/ SLogBytes(r.st.logs) + Len(r.v.v) > 1024 THEN SFail(r.st, "log-limit")
         ELSE SR([r.st EXCEPT !.logs = Append(@, r.v.v)], None)
    [] k = "Load" ->
         LET key == CellKey(env, node.i[1]) IN
         IF key \in DOMAIN st.cells THEN SR(st, st.cells[key])
         ELSE IF key[2] = 0 THEN SR(st, U0)        \* a never-written global slot holds uint64 0
         ELSE SSig(st, None, "uninit", "")
    [] k = "Store" ->
         LET r == SEval(a[1], env, st) IN
         IF r.sig # "ok" THEN r
         ELSE SR([r.st EXCEPT !.cells = SPut(@, CellKey(env, node.i[1]), r.v)], None)
    [] k = "Idx" ->        \* ScratchVar.index(): the requested slot id; unknown (inconclusive) for automatic numbering
         LET v == node.i[1] IN
         IF v <= Len(env.slots) /\ env.slots[v] >= 0 THEN SR(st, U(FromInt(env.slots[v]))) ELSE SSig(st, None, "uninit", "")
    [] k = "DynSet" ->     \* DynamicScratchVar d now refers to the cell of variable v
         SR([st EXCEPT !.dyn = SPut(@, node.i[1], CellKey(env, node.i[2]))], None)
    [] k = "DynLoad" ->
         IF node.i[1] \notin DOMAIN st.dyn THEN SSig(st, None, "uninit", "")
         ELSE LET key == st.dyn[node.i[1]] IN
              IF key \in DOMAIN st.cells THEN SR(st, st.cells[key]) ELSE IF key[2] = 0 THEN SR(st, U0) ELSE SSig(st, None, "uninit", "")
    [] k = "DynStore" ->
         LET r == SEval(a[1], env, st) IN
         IF r.sig # "ok" THEN r
         ELSE IF node.i[1] \notin DOMAIN r.st.dyn THEN SSig(r.st, None, "uninit", "")
         ELSE SR([r.st EXCEPT !.cells = SPut(@, r.st.dyn[node.i[1]], r.v)], None)
    [] k = "PVal" -> SR(st, env.params[node.i[1]])                          \* by-value parameter
    [] k = "PLoad" ->                                                        \* by-reference parameter
         LET key == env.params[node.i[1]] IN
         IF key \in DOMAIN st.cells THEN SR(st, st.cells[key])
         ELSE IF key[2] = 0 THEN SR(st, U0) ELSE SSig(st, None, "uninit", "")
    [] k = "PStore" ->
         LET r == SEval(a[1], env, st) IN
         IF r.sig # "ok" THEN r
         ELSE SR([r.st EXCEPT !.cells = SPut(@, env.params[node.i[1]], r.v)], None)
    [] k = "GPut" ->
         LET r == SEvalList(a, 1, env, st, <<>>) IN
         IF r.sig # "ok" THEN r
         ELSE IF r.v[1].t # "b" THEN SFail(r.st, "type")
         ELSE SR([r.st EXCEPT !.gs = SPut(@, r.v[1].v, r.v[2]),
                             !.writes = Append(@, <<"gput", r.v[1].v, r.v[2]>>)], None)
    [] k = "GGet" ->
         LET r == SEval(a[1], env, st) IN
         IF r.sig # "ok" THEN r
         ELSE IF r.v.t # "b" THEN SFail(r.st, "type") ELSE SR(r.st, SGet(r.st.gs, r.v.v, U0))
    [] k = "GDel" ->
         LET r == SEval(a[1], env, st) IN
         IF r.sig # "ok" THEN r
         ELSE IF r.v.t # "b" THEN SFail(r.st, "type")
         ELSE SR([r.st EXCEPT !.gs = SDel(@, r.v.v), !.writes = Append(@, <<"gdel", r.v.v>>)], None)
    [] k = "LPut" ->     \* App.localPut(account, key, value)
         LET r == SEvalList(a, 1, env, st, <<>>) IN
         IF r.sig # "ok" THEN r
         ELSE IF r.v[2].t # "b" THEN SFail(r.st, "type")
         ELSE SR([r.st EXCEPT !.ls = SPut(@, <<r.v[1], r.v[2].v>>, r.v[3]),
                             !.writes = Append(@, <<"lput", r.v[1], r.v[2].v, r.v[3]>>)], None)
    [] k = "LGet" ->
         LET r == SEvalList(a, 1, env, st, <<>>) IN
         IF r.sig # "ok" THEN r
         ELSE IF r.v[2].t # "b" THEN SFail(r.st, "type") ELSE SR(r.st, SGet(r.st.ls, <<r.v[1], r.v[2].v>>, U0))
    [] k = "LDel" ->
         LET r == SEvalList(a, 1, env, st, <<>>) IN
         IF r.sig # "ok" THEN r
         ELSE IF r.v[2].t # "b" THEN SFail(r.st, "type")
         ELSE SR([r.st EXCEPT !.ls = SDel(@, <<r.v[1], r.v[2].v>>), !.writes = Append(@, <<"ldel", r.v[1], r.v[2].v>>)], None)
    \* ---- boxes (documented meaning of App.box_*): a box is a byte string of fixed length named by a byte string ----
    [] k = "BoxCreate" ->    \* 1 when created (zero filled), 0 when a box of that name and size exists; another size fails
         LET r == SEvalList(a, 1, env, st, <<>>) IN
         IF r.sig # "ok" THEN r
         ELSE IF r.v[1].t # "b" \/ r.v[2].t # "u" THEN SFail(r.st, "type")
         ELSE IF IntOf(r.v[2]) < 0 THEN SFail(r.st, "range")
         ELSE IF r.v[1].v \in DOMAIN r.st.bx
              THEN (IF Len(r.st.bx[r.v[1].v]) # IntOf(r.v[2]) THEN SFail(r.st, "box") ELSE SR(r.st, U0))
              ELSE SR([r.st EXCEPT !.bx = SPut(@, r.v[1].v, [j \in 1..IntOf(r.v[2]) |-> 0]),
                                   !.writes = Append(@, <<"bcreate", r.v[1].v, r.v[2]>>)], U1)
    [] k = "BoxPut" ->       \* replaces the whole contents; an existing box keeps its length
         LET r == SEvalList(a, 1, env, st, <<>>) IN
         IF r.sig # "ok" THEN r
         ELSE IF r.v[1].t # "b" \/ r.v[2].t # "b" THEN SFail(r.st, "type")
         ELSE IF r.v[1].v \in DOMAIN r.st.bx /\ Len(r.st.bx[r.v[1].v]) # Len(r.v[2].v) THEN SFail(r.st, "box")
         ELSE SR([r.st EXCEPT !.bx = SPut(@, r.v[1].v, r.v[2].v), !.writes = Append(@, <<"bput", r.v[1].v, r.v[2].v>>)], None)
    [] k = "BoxDel" ->       \* 1 when the box existed
         LET r == SEval(a[1], env, st) IN
         IF r.sig # "ok" THEN r ELSE IF r.v.t # "b" THEN SFail(r.st, "type")
         ELSE SR([r.st EXCEPT !.bx = SDel(@, r.v.v), !.writes = Append(@, <<"bdel", r.v.v>>)], Bool(r.v.v \in DOMAIN r.st.bx))
    [] k = "BoxExtract" ->   \* length bytes from start of an existing box
         LET r == SEvalList(a, 1, env, st, <<>>) IN
         IF r.sig # "ok" THEN r
         ELSE IF r.v[1].t # "b" \/ r.v[2].t # "u" \/ r.v[3].t # "u" THEN SFail(r.st, "type")
         ELSE IF r.v[1].v \notin DOMAIN r.st.bx THEN SFail(r.st, "box")
         ELSE Lift(r.st, PureOp("extract3", <<>>, <<B(r.st.bx[r.v[1].v]), r.v[2], r.v[3]>>))
    [] k = "BoxReplace" ->   \* overwrites part of an existing box, which keeps its length
         LET r == SEvalList(a, 1, env, st, <<>>) IN
         IF r.sig # "ok" THEN r
         ELSE IF r.v[1].t # "b" \/ r.v[2].t # "u" \/ r.v[3].t # "b" THEN SFail(r.st, "type")
         ELSE IF r.v[1].v \notin DOMAIN r.st.bx THEN SFail(r.st, "box")
         ELSE LET q == PureOp("replace3", <<>>, <<B(r.st.bx[r.v[1].v]), r.v[2], r.v[3]>>) IN
              IF ~q.ok THEN SFail(r.st, q.why)
              ELSE SR([r.st EXCEPT !.bx = SPut(@, r.v[1].v, q.v[1].v),
                                   !.writes = Append(@, <<"breplace", r.v[1].v, r.v[2], r.v[3].v>>)], None)
    [] k = "MV" ->       \* a MaybeValue evaluated once; node.i[1] names it, node.s says which lookup
         LET r == SEvalList(a, 1, env, st, <<>>) IN
         IF r.sig # "ok" THEN r
         ELSE LET res ==
                CASE node.s = "GGetEx" ->
                       IF r.v[1].t # "u" \/ r.v[2].t # "b" THEN Fail("type")
                       ELSE Ok(<<SGet(r.st.gs, r.v[2].v, U0), Bool(r.v[2].v \in DOMAIN r.st.gs)>>)
                  [] node.s = "BoxGet" ->
                       IF r.v[1].t # "b" THEN Fail("type")
                       ELSE Ok(<<B(SGet(r.st.bx, r.v[1].v, <<>>)), Bool(r.v[1].v \in DOMAIN r.st.bx)>>)
                  [] node.s = "BoxLen" ->
                       IF r.v[1].t # "b" THEN Fail("type")
                       ELSE Ok(<<U(FromInt(Len(SGet(r.st.bx, r.v[1].v, <<>>)))), Bool(r.v[1].v \in DOMAIN r.st.bx)>>)
                  [] OTHER -> LedgerGet(env.ctx, node.s, r.v)
              IN IF ~res.ok THEN SFail(r.st, res.why)
                 ELSE SR([r.st EXCEPT !.mv = SPut(@, <<node.i[1], env.act>>, res.v)], None)
    [] k = "MVHas" -> IF <<node.i[1], env.act>> \in DOMAIN st.mv THEN SR(st, st.mv[<<node.i[1], env.act>>][2])
                      ELSE SSig(st, None, "uninit", "")
    [] k = "MVVal" -> IF <<node.i[1], env.act>> \in DOMAIN st.mv THEN SR(st, st.mv[<<node.i[1], env.act>>][1])
                      ELSE SSig(st, None, "uninit", "")
    [] k = "ItxBegin" ->
         IF st.itx # <<>> THEN SFail(st, "itxn-begin-twice") ELSE SR([st EXCEPT !.itx = <<[f |-> <<>>, a |-> <<>>]>>], None)
    [] k = "ItxNext" ->
         IF st.itx = <<>> THEN SFail(st, "itxn-not-begun")
         ELSE SR([st EXCEPT !.itx = Append(@, [f |-> <<>>, a |-> <<>>])], None)
    [] k = "ItxField" ->
         LET r == SEval(a[1], env, st) IN
         IF r.sig # "ok" THEN r
         ELSE IF r.st.itx = <<>> THEN SFail(r.st, "itxn-not-begun")
         ELSE LET f == node.s
                  cur == r.st.itx[Len(r.st.itx)]
              IN IF f \in SItxnArrayFields
                 THEN LET old == SGet(cur.a, f, <<>>) IN
                      IF Len(old) >= SItxnArrayLimit(f) THEN SFail(r.st, "itxn-array-limit")
                      ELSE SR([r.st EXCEPT !.itx[Len(r.st.itx)] = [cur EXCEPT !.a = SPut(cur.a, f, Append(old, r.v))]], None)
                 ELSE SR([r.st EXCEPT !.itx[Len(r.st.itx)] = [cur EXCEPT !.f = SPut(cur.f, f, r.v)]], None)
    [] k = "ItxSubmit" ->
         IF st.itx = <<>> THEN SFail(st, "itxn-not-begun")
         ELSE SR([st EXCEPT !.sub = Append(@, st.itx), !.itx = <<>>], None)
    [] k = "WideRatio" ->   \* node.i[1] = number of numerators
         LET r == SEvalList(a, 1, env, st, <<>>) IN
         IF r.sig # "ok" THEN r
         ELSE IF \E j \in 1..Len(r.v) : r.v[j].t # "u" THEN SFail(r.st, "type")
         ELSE LET nn == node.i[1]
                  pn == SWide(r.v, 2, nn, r.v[1].v, 0)
                  pd == SWide(r.v, nn + 2, Len(r.v), r.v[nn + 1].v, 0)
              IN IF ~pn.ok \/ ~pd.ok THEN SFail(r.st, "arith")
                 ELSE IF pd.v = <<>> THEN SFail(r.st, "arith")
                 ELSE LET q == Div(pn.v, pd.v) IN
                      IF FitsWord(q) THEN SR(r.st, U(q)) ELSE SFail(r.st, "arith")
    [] k = "Call" ->       \* node.i[1] = routine id; arguments left to right; "r" parameters pass a cell
         LET rt == env.rt[node.i[1]]
             r == SEvalList(a, 1, env, st, <<>>)
         IN
         IF r.sig # "ok" THEN r
         ELSE IF r.st.fuel = 0 THEN SSig(r.st, None, "fuel", "")
         ELSE LET env2 == [env EXCEPT !.rid = node.i[1], !.act = r.st.nextAct, !.params = r.v,
                                      !.locals = rt.locals]
                  b == SEval(rt.body, env2, [r.st EXCEPT !.nextAct = @ + 1, !.fuel = @ - 1])
              IN IF b.sig = "ret" THEN SR(b.st, b.v)
                 ELSE IF b.sig = "ok" THEN SR(b.st, IF rt.ret = "n" THEN None ELSE b.v)
                 ELSE b
    [] k = "Ref" ->        \* the cell of a variable, as argument for an "r" parameter
         SR(st, CellKey(env, node.i[1]))
    [] k = "PRef" ->       \* pass on my own by-reference parameter
         SR(st, env.params[node.i[1]])
    [] k \in {"Comment", "Pragma", "Nonce"} -> SEval(a[1], env, st)        \* annotations are transparent
    [] OTHER -> SFail(st, "spec-unknown-kind:" \o k)

\* the outcome of a whole program
SOutcome(prog, ctx, fuel) ==
  LET env == [ctx |-> ctx, rt |-> prog.rt, rid |-> 0, act |-> 0, params |-> <<>>, locals |-> <<>>,
              slots |-> IF "vars" \in DOMAIN prog THEN [j \in 1..Len(prog.vars) |-> prog.vars[j].slot] ELSE <<>>]
      r == SEval(prog.main, env, S0(ctx, fuel))
      cls == CASE r.sig \in {"fuel", "uninit"} -> "inconclusive"
               [] r.sig = "fail" -> "fail"
               [] r.sig \in {"exit", "ok"} ->
                    IF r.v.t # "u" THEN "fail" ELSE IF Truthy(r.v) THEN "approve" ELSE "reject"
               [] OTHER -> "fail"
  IN [class |-> cls, why |-> IF r.sig = "uninit" THEN "uninit" ELSE r.why,
      ret |-> IF cls \in {"approve", "reject"} THEN r.v.v ELSE <<>>,
      logs |-> IF cls \in {"approve", "reject"} THEN r.st.logs ELSE <<>>,
      writes |-> IF cls \in {"approve", "reject"} THEN r.st.writes ELSE <<>>,
      itxns |-> IF cls \in {"approve", "reject"} THEN r.st.sub ELSE <<>>]
=============================================================================
