-------------------------------- MODULE R3Gen --------------------------------
(* Generator of mapping streams for SourceMapR3: every map of at most 2 lines with at most 2 segments whose fields range
   over boundary values (deltas negative, zero, one VLQ group, several groups) is one behaviour. *)
EXTENDS Naturals, Sequences, TLC, Json
VARIABLES m, done
vars == <<m, done>>
V == {0, 1, 15, 16, 31, 32, 1023, 1024, 1048576}
Seg == [gcol : {0, 7}, src : {0, 2}, sline : V, scol : {0, 600}]
Init == m = <<>> /\ done = FALSE
AddLine == ~done /\ Len(m) < 2 /\ \E s \in Seg : m' = Append(m, <<s>>) /\ UNCHANGED done
AddSeg == ~done /\ Len(m) = 1 /\ Len(m[Len(m)]) < 2 /\ \E s \in Seg : s.gcol > m[Len(m)][Len(m[Len(m)])].gcol /\ m' = [m EXCEPT ![Len(m)] = Append(@, s)] /\ UNCHANGED done
Emit == ~done /\ m # <<>> /\ done' = TRUE /\ UNCHANGED m /\ PrintT("M|" \o ToJson(m))
Next == AddLine \/ AddSeg \/ Emit
Spec == Init /\ [][Next]_vars
=============================================================================
