------------------------------- MODULE Router -------------------------------
(***************************************************************************)
(* ARC-4 routing as the Router documentation states it.                    *)
(* cfg  = [methods |-> Seq([sel |-> 4 bytes, mc |-> [oc name -> cc]]),     *)
(*         bare |-> [oc name -> cc],   clear |-> 0/1]                      *)
(*   cc in {"NEVER","CALL","CREATE","ALL"};  oc names as below.            *)
(* call = [args |-> Seq(bytes), oc |-> 0..5, appid |-> Nat]                *)
(* Dispatch(cfg, call) is <<"method", i>>, <<"bare", oc>> or <<"reject">>. *)
(***************************************************************************)
EXTENDS Naturals, Sequences

OCName(oc) == CASE oc = 0 -> "no_op" [] oc = 1 -> "opt_in" [] oc = 2 -> "close_out" [] oc = 3 -> "clear_state"
                [] oc = 4 -> "update_application" [] oc = 5 -> "delete_application"
ApprovalOCs == {0, 1, 2, 4, 5}

Allowed(cc, create) == cc = "ALL" \/ (cc = "CALL" /\ ~create) \/ (cc = "CREATE" /\ create)

Dispatch(cfg, call) ==
  LET create == call.appid = 0
      ocn == OCName(call.oc)
  IN
  IF call.oc \notin ApprovalOCs THEN <<"reject">>
  ELSE IF call.args = <<>>
  THEN IF Allowed(cfg.bare[ocn], create) THEN <<"bare", call.oc>> ELSE <<"reject">>
  ELSE LET hit == {i \in 1..Len(cfg.methods) : cfg.methods[i].sel = call.args[1]} IN
       IF hit = {} THEN <<"reject">>
       ELSE LET i == CHOOSE x \in hit : \A y \in hit : x <= y IN          \* selectors are distinct by construction
            IF Allowed(cfg.methods[i].mc[ocn], create) THEN <<"method", i>> ELSE <<"reject">>

\* the clear-state program runs the given action whatever the call looks like, and rejects when none was given
ClearDispatch(cfg, call) == IF cfg.clear = 1 THEN <<"clear">> ELSE <<"reject">>
=============================================================================
