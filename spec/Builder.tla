------------------------------- MODULE Builder ------------------------------
(***************************************************************************)
(* The public constructor API of PyTeal as a state machine: a behaviour is *)
(* a postfix sequence of constructor calls, i.e. one program.  TLC         *)
(* enumerates every behaviour up to a node budget (BFS) or walks it at     *)
(* random (-simulate); every finished program is printed as a recipe       *)
(* (JSON of the node records of PyTealSem.tla) and replayed by the         *)
(* harness into the real library.                                          *)
(*                                                                         *)
(* State: stk - stack of typed trees built so far, rt - routine bodies     *)
(* closed so far, fin - finished flag.  Each action is enabled by the      *)
(* constructor's documented typing rule, so every finished program is      *)
(* well-typed by construction ("Accepts" prediction of C20).               *)
(***************************************************************************)
EXTENDS Naturals, Sequences, FiniteSets, TLC, Json

CONSTANTS MaxNodes,     \* node budget of one program (routine bodies included)
          Leaves,       \* set of leaf names, see LeafNode
          UnOps, BinOps, NaryOps, TerOps,     \* value-level operator alphabets
          Stmts,        \* subset of {"Pop","Store","Log","GPut","GDel","Assert","Assert2","Return","Approve","Reject","Err","Return0"}
          Ctrl,         \* subset of {"Seq2","Seq3","If2","If3","Cond2","While","For","Break","Continue","EmptySeq"}
          NVarsU, NVarsB,   \* number of uint64 / bytes scratch variables (ids 1..NVarsU, NVarsU+1..)
          InitVars,     \* TRUE: main starts by storing an initial value into every variable
          SigsName      \* name of the routine-signature catalogue entry, see Sigs

\* routine signatures <<[pk |-> <<"v",..>>, ret |-> "u"|"b"|"n"], ...>> (cfg files cannot hold tuples)
Sigs ==
  CASE SigsName = "none" -> <<>>
    [] SigsName = "u1" -> << [pk |-> <<"v">>, ret |-> "u"] >>
    [] SigsName = "u2" -> << [pk |-> <<"v", "v">>, ret |-> "u"] >>
    [] SigsName = "n1" -> << [pk |-> <<"v">>, ret |-> "n"] >>
    [] SigsName = "u0" -> << [pk |-> <<>>, ret |-> "u"] >>
    [] SigsName = "u1n1" -> << [pk |-> <<"v">>, ret |-> "u"], [pk |-> <<"v">>, ret |-> "n"] >>
    [] SigsName = "u1u2" -> << [pk |-> <<"v">>, ret |-> "u"], [pk |-> <<"v", "v">>, ret |-> "u"] >>
    [] SigsName = "n0u2" -> << [pk |-> <<>>, ret |-> "n"], [pk |-> <<"v", "v">>, ret |-> "u"] >>

VARIABLES stk, rt, fin
vars == <<stk, rt, fin>>

Nd(k, t, n, s, a, i) == [k |-> k, t |-> t, n |-> n, s |-> s, a |-> a, i |-> i, sp |-> 0]
\* stack entry: tree e, size sz, fb = contains a Break/Continue not enclosed in a loop,
\* hr = PyTeal's has_return(), ld = contains a Load/param use (so it is not constant)
En(e, sz, fb, hr) == [e |-> e, sz |-> sz, fb |-> fb, hr |-> hr]

NR == Len(Sigs)
CurRoutine == Len(rt) + 1          \* routine being built; NR + 1 = main
InMain == CurRoutine = NR + 1

ArgU(j) == Nd("Op", "u", <<>>, "btoi", <<Nd("TxnA", "b", <<>>, "ApplicationArgs", <<>>, <<j>>)>>, <<>>)
ArgB(j) == Nd("TxnA", "b", <<>>, "ApplicationArgs", <<>>, <<j>>)

LeafNode(l) ==
  CASE l = "i0" -> Nd("Int", "u", <<>>, "", <<>>, <<>>)
    [] l = "i1" -> Nd("Int", "u", <<1>>, "", <<>>, <<>>)
    [] l = "i2" -> Nd("Int", "u", <<2>>, "", <<>>, <<>>)
    [] l = "i3" -> Nd("Int", "u", <<3>>, "", <<>>, <<>>)
    [] l = "imax" -> Nd("Int", "u", <<255, 255, 255, 255, 255, 255, 255, 255>>, "", <<>>, <<>>)
    [] l = "au0" -> ArgU(0)
    [] l = "au1" -> ArgU(1)
    [] l = "au2" -> ArgU(2)
    [] l = "ab0" -> ArgB(0)
    [] l = "ab1" -> ArgB(1)
    [] l = "ba" -> Nd("Bytes", "b", <<97>>, "", <<>>, <<>>)
    [] l = "bb" -> Nd("Bytes", "b", <<98, 99>>, "", <<>>, <<>>)
    [] l = "be" -> Nd("Bytes", "b", <<>>, "", <<>>, <<>>)
    [] l = "gget" -> Nd("GGet", "a", <<>>, "", <<Nd("Bytes", "b", <<107>>, "", <<>>, <<>>)>>, <<>>)
    [] l = "sender" -> Nd("Txn", "b", <<>>, "Sender", <<>>, <<>>)
    [] l = "oc" -> Nd("Txn", "u", <<>>, "OnCompletion", <<>>, <<>>)
    [] l = "appid" -> Nd("Txn", "u", <<>>, "ApplicationID", <<>>, <<>>)
    [] l = "nargs" -> Nd("Txn", "u", <<>>, "NumAppArgs", <<>>, <<>>)
    [] l = "gsize" -> Nd("Global", "u", <<>>, "GroupSize", <<>>, <<>>)
    [] l = "idx1" -> Nd("Idx", "u", <<>>, "", <<>>, <<1>>)        \* ScratchVar.index() of variable 1 / 2
    [] l = "idx2" -> Nd("Idx", "u", <<>>, "", <<>>, <<2>>)

ResT(op) ==
  IF op \in {"itob", "concat", "substring3", "extract3", "setbyte", "b+", "b-", "b*", "b/", "b%", "b|", "b&",
             "b^", "b~", "bzero", "sha256", "bsqrt", "replace3"} THEN "b" ELSE "u"
ArgT(op) ==      \* operand types, written order
  CASE op \in {"+", "-", "*", "/", "%", "<", ">", "<=", ">=", "&&", "||", "|", "&", "^", "shl", "shr", "exp"} -> <<"u", "u">>
    [] op \in {"!", "~", "itob", "sqrt", "bzero"} -> <<"u">>
    [] op \in {"len", "btoi", "b~", "sha256", "bsqrt"} -> <<"b">>
    [] op \in {"concat", "b+", "b-", "b*", "b/", "b%", "b<", "b>", "b<=", "b>=", "b==", "b!=", "b|", "b&", "b^"} -> <<"b", "b">>
    [] op \in {"getbyte", "extract_uint16", "extract_uint32", "extract_uint64"} -> <<"b", "u">>
    [] op = "setbyte" -> <<"b", "u", "u">>
    [] op = "=="  -> <<"u", "u">>          \* generated on uint64 operands; Eq on bytes is "b=" below
    [] op = "!="  -> <<"u", "u">>
    [] op = "bitlen" -> <<"u">>
    [] op = "getbit" -> <<"u", "u">>
    [] op = "setbit" -> <<"u", "u", "u">>
    [] op = "divw" -> <<"u", "u", "u">>

\* type compatibility of an operand: anytype trees are accepted everywhere a value is
Fits(want, have) == have = want \/ (have = "a" /\ want \in {"u", "b"})

Top(k) == stk[Len(stk) - k]            \* k = 0 is the top
Pop(k) == SubSeq(stk, 1, Len(stk) - k)
Total == LET RECURSIVE Sum(_) Sum(j) == IF j = 0 THEN 0 ELSE stk[j].sz + Sum(j - 1) IN Sum(Len(stk))
RtTotal == LET RECURSIVE Sum(_) Sum(j) == IF j = 0 THEN 0 ELSE rt[j].sz + Sum(j - 1) IN Sum(Len(rt))
Room(extra) == Total + RtTotal + extra <= MaxNodes
Has(k) == Len(stk) >= k

\* a stack of k trees needs k - 1 reductions; one constructor node removes at most MaxAr - 1 entries,
\* so a push that could never be folded into one tree within the budget is not offered (prunes dead ends only)
MaxAr == IF "For" \in Ctrl \/ "Cond2" \in Ctrl THEN 4 ELSE 3
Push(en) == /\ Len(stk) <= (MaxAr - 1) * (MaxNodes - Total - RtTotal - en.sz)
            /\ stk' = Append(stk, en) /\ UNCHANGED <<rt, fin>>
Replace(k, en) == stk' = Append(Pop(k), en) /\ UNCHANGED <<rt, fin>>

VarT(v) == IF v <= NVarsU THEN "u" ELSE "b"
Vars == 1..(NVarsU + NVarsB)
RetT == IF InMain THEN "u" ELSE Sigs[CurRoutine].ret

\* ---- actions ----------------------------------------------------------------------
PushLeaf(l) == ~fin /\ Room(1) /\ Push(En(LeafNode(l), 1, FALSE, FALSE))

PushLoad(v) == ~fin /\ Room(1) /\ Push(En(Nd("Load", VarT(v), <<>>, "", <<>>, <<v>>), 1, FALSE, FALSE))

PushParam(j) == ~fin /\ ~InMain /\ Room(1) /\ j <= Len(Sigs[CurRoutine].pk)
                /\ Sigs[CurRoutine].pk[j] = "v"
                /\ Push(En(Nd("PVal", "u", <<>>, "", <<>>, <<j>>), 1, FALSE, FALSE))

ApplyUn(op) == /\ ~fin /\ Has(1) /\ Room(1) /\ Fits(ArgT(op)[1], Top(0).e.t) /\ ~Top(0).hr
               /\ Replace(1, En(Nd("Op", ResT(op), <<>>, op, <<Top(0).e>>, <<>>), Top(0).sz + 1, Top(0).fb, FALSE))

ApplyBin(op) == /\ ~fin /\ Has(2) /\ Room(1)
                /\ Fits(ArgT(op)[1], Top(1).e.t) /\ Fits(ArgT(op)[2], Top(0).e.t)
                /\ Replace(2, En(Nd("Op", ResT(op), <<>>, op, <<Top(1).e, Top(0).e>>, <<>>),
                                 Top(1).sz + Top(0).sz + 1, Top(1).fb \/ Top(0).fb, FALSE))

ApplyTer(op) == /\ ~fin /\ Has(3) /\ Room(1)
                /\ \A j \in 1..3 : Fits(ArgT(op)[j], Top(3 - j).e.t)
                /\ Replace(3, En(Nd("Op", ResT(op), <<>>, op, <<Top(2).e, Top(1).e, Top(0).e>>, <<>>),
                                 Top(2).sz + Top(1).sz + Top(0).sz + 1, Top(2).fb \/ Top(1).fb \/ Top(0).fb, FALSE))

ApplyNary3(op) == /\ ~fin /\ Has(3) /\ Room(1)
                  /\ \A j \in 0..2 : Fits(ArgT(op)[1], Top(j).e.t)
                  /\ Replace(3, En(Nd("Nary", ResT(op), <<>>, op, <<Top(2).e, Top(1).e, Top(0).e>>, <<>>),
                                   Top(2).sz + Top(1).sz + Top(0).sz + 1, Top(2).fb \/ Top(1).fb \/ Top(0).fb, FALSE))

ApplySlice(kind) ==      \* Substring / Extract: (bytes, uint64, uint64) -> bytes ; Suffix: (bytes, uint64)
  /\ ~fin /\ Room(1)
  /\ IF kind = "Suffix"
     THEN /\ Has(2) /\ Fits("b", Top(1).e.t) /\ Fits("u", Top(0).e.t)
          /\ Replace(2, En(Nd(kind, "b", <<>>, "", <<Top(1).e, Top(0).e>>, <<>>), Top(1).sz + Top(0).sz + 1,
                           Top(1).fb \/ Top(0).fb, FALSE))
     ELSE /\ Has(3) /\ Fits("b", Top(2).e.t) /\ Fits("u", Top(1).e.t) /\ Fits("u", Top(0).e.t)
          /\ Replace(3, En(Nd(kind, "b", <<>>, "", <<Top(2).e, Top(1).e, Top(0).e>>, <<>>),
                           Top(2).sz + Top(1).sz + Top(0).sz + 1, Top(2).fb \/ Top(1).fb \/ Top(0).fb, FALSE))

IsVal(t) == t \in {"u", "b", "a"}

ApplyStmt(s) ==
  /\ ~fin /\ Room(1)
  /\ CASE s = "Pop" -> Has(1) /\ IsVal(Top(0).e.t)
                       /\ Replace(1, En(Nd("Pop", "n", <<>>, "", <<Top(0).e>>, <<>>), Top(0).sz + 1, Top(0).fb, FALSE))
       [] s = "Log" -> Has(1) /\ Fits("b", Top(0).e.t)
                       /\ Replace(1, En(Nd("Log", "n", <<>>, "", <<Top(0).e>>, <<>>), Top(0).sz + 1, Top(0).fb, FALSE))
       [] s = "GPut" -> Has(1) /\ IsVal(Top(0).e.t)
                        /\ Replace(1, En(Nd("GPut", "n", <<>>, "", <<Nd("Bytes", "b", <<107>>, "", <<>>, <<>>), Top(0).e>>, <<>>),
                                         Top(0).sz + 1, Top(0).fb, FALSE))
       [] s = "GDel" -> Push(En(Nd("GDel", "n", <<>>, "", <<Nd("Bytes", "b", <<107>>, "", <<>>, <<>>)>>, <<>>), 1, FALSE, FALSE))
       [] s = "Assert" -> Has(1) /\ Fits("u", Top(0).e.t)
                          /\ Replace(1, En(Nd("Assert", "n", <<>>, "", <<Top(0).e>>, <<>>), Top(0).sz + 1, Top(0).fb, FALSE))
       [] s = "Assert2" -> Has(2) /\ Fits("u", Top(0).e.t) /\ Fits("u", Top(1).e.t)
                           /\ Replace(2, En(Nd("Assert", "n", <<>>, "", <<Top(1).e, Top(0).e>>, <<>>),
                                            Top(1).sz + Top(0).sz + 1, Top(0).fb \/ Top(1).fb, FALSE))
       [] s = "Return" -> RetT # "n" /\ Has(1) /\ Fits(RetT, Top(0).e.t)
                          /\ Replace(1, En(Nd("Return", "n", <<>>, "", <<Top(0).e>>, <<>>), Top(0).sz + 1, Top(0).fb, TRUE))
       [] s = "Return0" -> RetT = "n" /\ ~InMain
                           /\ Push(En(Nd("Return", "n", <<>>, "", <<>>, <<>>), 1, FALSE, TRUE))
       [] s = "Approve" -> Push(En(Nd("Approve", "n", <<>>, "", <<>>, <<>>), 1, FALSE, TRUE))
       [] s = "Reject" -> Push(En(Nd("Reject", "n", <<>>, "", <<>>, <<>>), 1, FALSE, TRUE))
       [] s = "Err" -> Push(En(Nd("Err", "n", <<>>, "", <<>>, <<>>), 1, FALSE, TRUE))
       [] OTHER -> FALSE

ApplyStore(v) == /\ ~fin /\ Room(1) /\ Has(1) /\ Fits(VarT(v), Top(0).e.t) /\ Top(0).e.t # "a"
                 /\ Replace(1, En(Nd("Store", "n", <<>>, "", <<Top(0).e>>, <<v>>), Top(0).sz + 1, Top(0).fb, FALSE))

ApplyCtrl(c) ==
  /\ ~fin /\ Room(1)
  /\ CASE c = "Seq2" -> Has(2) /\ Top(1).e.t = "n" /\ ~Top(1).hr
                        /\ Replace(2, En(Nd("Seq", Top(0).e.t, <<>>, "", <<Top(1).e, Top(0).e>>, <<>>),
                                         Top(1).sz + Top(0).sz + 1, Top(1).fb \/ Top(0).fb, Top(0).hr))
       [] c = "Seq3" -> Has(3) /\ Top(2).e.t = "n" /\ Top(1).e.t = "n" /\ ~Top(2).hr /\ ~Top(1).hr
                        /\ Replace(3, En(Nd("Seq", Top(0).e.t, <<>>, "", <<Top(2).e, Top(1).e, Top(0).e>>, <<>>),
                                         Top(2).sz + Top(1).sz + Top(0).sz + 1,
                                         Top(2).fb \/ Top(1).fb \/ Top(0).fb, Top(0).hr))
       [] c = "EmptySeq" -> Push(En(Nd("Seq", "n", <<>>, "", <<>>, <<>>), 1, FALSE, FALSE))
       [] c = "If2" -> Has(2) /\ Fits("u", Top(1).e.t) /\ Top(0).e.t = "n" /\ ~Top(1).fb
                       /\ Replace(2, En(Nd("If", "n", <<>>, "", <<Top(1).e, Top(0).e>>, <<>>),
                                        Top(1).sz + Top(0).sz + 1, Top(0).fb, FALSE))
       [] c = "If3" -> Has(3) /\ Fits("u", Top(2).e.t) /\ Top(1).e.t = Top(0).e.t /\ ~Top(2).fb
                       /\ Replace(3, En(Nd("If", Top(0).e.t, <<>>, "", <<Top(2).e, Top(1).e, Top(0).e>>, <<>>),
                                        Top(2).sz + Top(1).sz + Top(0).sz + 1, Top(1).fb \/ Top(0).fb,
                                        Top(1).hr /\ Top(0).hr))
       [] c = "Cond2" -> Has(4) /\ Fits("u", Top(3).e.t) /\ Fits("u", Top(1).e.t) /\ Top(2).e.t = Top(0).e.t
                         /\ ~Top(3).fb /\ ~Top(1).fb
                         /\ Replace(4, En(Nd("Cond", Top(0).e.t, <<>>, "", <<Top(3).e, Top(2).e, Top(1).e, Top(0).e>>, <<>>),
                                          Top(3).sz + Top(2).sz + Top(1).sz + Top(0).sz + 1,
                                          Top(2).fb \/ Top(0).fb, Top(2).hr /\ Top(0).hr))
       [] c = "While" -> Has(2) /\ Fits("u", Top(1).e.t) /\ Top(0).e.t = "n" /\ ~Top(1).fb /\ ~Top(1).hr
                         /\ Replace(2, En(Nd("While", "n", <<>>, "", <<Top(1).e, Top(0).e>>, <<>>),
                                          Top(1).sz + Top(0).sz + 1, FALSE, FALSE))
       [] c = "For" -> Has(4) /\ Top(3).e.t = "n" /\ Fits("u", Top(2).e.t) /\ Top(1).e.t = "n" /\ Top(0).e.t = "n"
                       /\ ~Top(3).fb /\ ~Top(2).fb /\ ~Top(1).fb /\ ~Top(3).hr /\ ~Top(2).hr /\ ~Top(1).hr
                       /\ Replace(4, En(Nd("For", "n", <<>>, "", <<Top(3).e, Top(2).e, Top(1).e, Top(0).e>>, <<>>),
                                        Top(3).sz + Top(2).sz + Top(1).sz + Top(0).sz + 1, FALSE, FALSE))
       [] c = "Break" -> Push(En(Nd("Break", "n", <<>>, "", <<>>, <<>>), 1, TRUE, FALSE))
       [] c = "Continue" -> Push(En(Nd("Continue", "n", <<>>, "", <<>>, <<>>), 1, TRUE, FALSE))
       [] OTHER -> FALSE

ApplyCall(r) ==
  LET sg == Sigs[r]
      na == Len(sg.pk)
  IN /\ ~fin /\ Room(1) /\ Has(na)
     /\ \A j \in 1..na : sg.pk[j] = "v" /\ Fits("u", Top(na - j).e.t)
     /\ LET args == [j \in 1..na |-> Top(na - j).e]
            sz == LET RECURSIVE S(_) S(j) == IF j = 0 THEN 0 ELSE Top(j - 1).sz + S(j - 1) IN S(na)
        IN Replace(na, En(Nd("Call", sg.ret, <<>>, "", args, <<r>>), sz + 1,
                          \E j \in 0..(na - 1) : Top(j).fb, FALSE))

\* a routine body is complete: exactly one tree on the stack with the declared return type
CloseRoutine ==
  /\ ~fin /\ ~InMain /\ Len(stk) = 1 /\ ~Top(0).fb
  /\ (Top(0).e.t = Sigs[CurRoutine].ret \/ (Top(0).hr /\ Top(0).e.t = "n"))
  /\ rt' = Append(rt, [pk |-> Sigs[CurRoutine].pk, ret |-> Sigs[CurRoutine].ret, body |-> Top(0).e,
                       locals |-> <<>>, sz |-> Top(0).sz])
  /\ stk' = <<>> /\ UNCHANGED fin

InitStores == [v \in 1..(NVarsU + NVarsB) |->
                 Nd("Store", "n", <<>>, "", <<IF VarT(v) = "u" THEN Nd("Int", "u", <<>>, "", <<>>, <<>>) ELSE Nd("Bytes", "b", <<>>, "", <<>>, <<>>)>>, <<v>>)]

Finish ==
  /\ ~fin /\ InMain /\ Len(stk) = 1 /\ ~Top(0).fb
  /\ (Top(0).e.t = "u" \/ (Top(0).hr /\ Top(0).e.t = "n"))
  /\ fin' = TRUE /\ UNCHANGED <<stk, rt>>
  /\ PrintT("R|" \o ToJson([main |-> IF InitVars /\ Vars # {}
                                       THEN Nd("Seq", Top(0).e.t, <<>>, "", InitStores \o <<Top(0).e>>, <<>>)
                                       ELSE Top(0).e,
                            rt |-> [j \in 1..Len(rt) |-> [pk |-> rt[j].pk, ret |-> rt[j].ret, body |-> rt[j].body,
                                                          locals |-> rt[j].locals]],
                            sz |-> Total + RtTotal]))

Init == stk = <<>> /\ rt = <<>> /\ fin = FALSE

Next ==
  \/ \E l \in Leaves : PushLeaf(l)
  \/ \E v \in Vars : PushLoad(v) \/ ApplyStore(v)
  \/ \E j \in 1..3 : PushParam(j)
  \/ \E op \in UnOps : ApplyUn(op)
  \/ \E op \in BinOps : ApplyBin(op)
  \/ \E op \in TerOps : IF op \in {"Substring", "Extract", "Suffix"} THEN ApplySlice(op) ELSE ApplyTer(op)
  \/ \E op \in NaryOps : ApplyNary3(op)
  \/ \E s \in Stmts : ApplyStmt(s)
  \/ \E c \in Ctrl : ApplyCtrl(c)
  \/ \E r \in 1..NR : ApplyCall(r)
  \/ CloseRoutine
  \/ Finish

Spec == Init /\ [][Next]_vars
=============================================================================
