------------------------------- MODULE LitGen -------------------------------
(***************************************************************************)
(* Generator of literal texts as strings over character *classes*: every   *)
(* sequence of at most MaxLen class numbers 1..NClasses is one behaviour.  *)
(* The harness concretises each class to code points (several per class).  *)
(***************************************************************************)
EXTENDS Naturals, Sequences, TLC, Json
CONSTANTS NClasses, MaxLen
VARIABLES s, done
vars == <<s, done>>
Init == s = <<>> /\ done = FALSE
Extend == ~done /\ Len(s) < MaxLen /\ \E c \in 1..NClasses : s' = Append(s, c) /\ UNCHANGED done
Emit == ~done /\ done' = TRUE /\ UNCHANGED s /\ PrintT("S|" \o ToJson(s))
Next == Extend \/ Emit
Spec == Init /\ [][Next]_vars
=============================================================================
