-------------------------------- MODULE Ctx ---------------------------------
(***************************************************************************)
(* The transaction context a program runs in, and the meaning of reading   *)
(* it.  Shared by the target machine (AVM.tla) and the source semantics    *)
(* (PyTealSem.tla): "Txn.sender()" and "txn Sender" read the same input.   *)
(*                                                                         *)
(* ctx = [gi    |-> 1-based position of the current transaction,           *)
(*        group |-> Seq(txn), glob |-> [field name -> value] (partial),    *)
(*        args  |-> Seq(bytes)  LogicSig arguments,                        *)
(*        gs    |-> Seq([k, v]) initial global state of the current app,   *)
(*        has   |-> 0/1  answer of every "does it exist" ledger lookup]    *)
(* txn = [f |-> [field name -> value] (partial), aa |-> Seq(bytes),        *)
(*        acc |-> Seq(bytes), asst |-> Seq(nat), apps |-> Seq(nat)]        *)
(***************************************************************************)
EXTENDS Vals

TxnBytesFields ==
  {"Sender", "Note", "Lease", "Receiver", "CloseRemainderTo", "VotePK", "SelectionPK", "Type",
   "AssetSender", "AssetReceiver", "AssetCloseTo", "TxID", "ApprovalProgram", "ClearStateProgram",
   "RekeyTo", "ConfigAssetUnitName", "ConfigAssetName", "ConfigAssetURL", "ConfigAssetMetadataHash",
   "ConfigAssetManager", "ConfigAssetReserve", "ConfigAssetFreeze", "ConfigAssetClawback",
   "FreezeAssetAccount", "LastLog", "StateProofPK"}
TxnArrayFields == {"ApplicationArgs", "Accounts", "Assets", "Applications", "Logs",
                   "ApprovalProgramPages", "ClearStateProgramPages"}
TxnArrayBytes == {"ApplicationArgs", "Accounts", "Logs", "ApprovalProgramPages", "ClearStateProgramPages"}
GlobalBytesFields == {"ZeroAddress", "CreatorAddress", "CurrentApplicationAddress", "GroupID",
                      "CallerApplicationAddress", "GenesisHash"}

Addr0 == Zeros(32)

TxnFieldIsBytes(name) == name \in TxnBytesFields \/ name \in TxnArrayBytes

TxnScalarOf(t, g, name) ==
  CASE name = "GroupIndex" -> U(FromInt(g - 1))
    [] name = "NumAppArgs" -> U(FromInt(Len(t.aa)))
    [] name = "NumAccounts" -> U(FromInt(Len(t.acc)))
    [] name = "NumAssets" -> U(FromInt(Len(t.asst)))
    [] name = "NumApplications" -> U(FromInt(Len(t.apps)))
    [] name \in {"NumLogs", "NumApprovalProgramPages", "NumClearStateProgramPages"} -> U0
    [] OTHER -> IF name \in DOMAIN t.f THEN t.f[name]
                ELSE IF name \in TxnBytesFields
                     THEN (IF name \in {"Sender", "Receiver", "RekeyTo", "CloseRemainderTo"} THEN B(Addr0) ELSE B(<<>>))
                     ELSE U0

TxnScalar(ctx, g, name) ==
  IF g < 1 \/ g > Len(ctx.group) THEN Fail("range")
  ELSE IF name \in TxnArrayFields THEN Fail("range")
  ELSE Ok1(TxnScalarOf(ctx.group[g], g, name))

TxnArrayOf(t, g, name, i) ==
  CASE name = "ApplicationArgs" -> IF i < Len(t.aa) THEN Ok1(B(t.aa[i + 1])) ELSE Fail("range")
    [] name = "Accounts" -> IF i = 0 THEN Ok1(TxnScalarOf(t, g, "Sender"))
                            ELSE IF i <= Len(t.acc) THEN Ok1(B(t.acc[i])) ELSE Fail("range")
    [] name = "Assets" -> IF i < Len(t.asst) THEN Ok1(U(t.asst[i + 1])) ELSE Fail("range")
    [] name = "Applications" -> IF i = 0 THEN Ok1(TxnScalarOf(t, g, "ApplicationID"))
                                ELSE IF i <= Len(t.apps) THEN Ok1(U(t.apps[i])) ELSE Fail("range")
    [] OTHER -> Fail("range")

TxnArray(ctx, g, name, i) ==
  IF g < 1 \/ g > Len(ctx.group) \/ i < 0 THEN Fail("range")
  ELSE IF name \in TxnArrayFields THEN TxnArrayOf(ctx.group[g], g, name, i)
  ELSE IF i = 0 THEN TxnScalar(ctx, g, name) ELSE Fail("range")

GlobalRead(ctx, name) ==
  CASE name = "GroupSize" -> U(FromInt(Len(ctx.group)))
    [] name = "ZeroAddress" -> B(Addr0)
    [] OTHER -> IF name \in DOMAIN ctx.glob THEN ctx.glob[name]
                ELSE IF name \in GlobalBytesFields THEN B(Addr0) ELSE U0

LsigArg(ctx, i) == IF i >= 0 /\ i < Len(ctx.args) THEN Ok1(B(ctx.args[i + 1])) ELSE Fail("range")

\* ---- ledger lookups: uninterpreted but typed, existence taken from ctx.has -----------------
LedgerBytesFields ==
  {"AssetUnitName", "AssetName", "AssetURL", "AssetMetadataHash", "AssetManager", "AssetReserve",
   "AssetFreeze", "AssetClawback", "AssetCreator", "AppApprovalProgram", "AppClearStateProgram",
   "AppCreator", "AppAddress", "AcctAuthAddr"}
LedgerVal(field, a) ==
  IF field \in LedgerBytesFields THEN B(Token(field, <<Len(field)>>, a, 8))
  ELSE U(Norm(<<(SumLen(a, 1) + Len(field)) % Base, 3>>))
\* ops of the form  args -> value, did_exist
LedgerGet(ctx, field, a) ==
  IF ctx.has = 1 THEN Ok(<<LedgerVal(field, a), U1>>)
  ELSE Ok(<<(IF field \in LedgerBytesFields THEN B(<<>>) ELSE U0), U0>>)
\* ops of the form  args -> uint64
LedgerUint(ctx, op, a) == Ok1(U(Norm(<<(SumLen(a, 1) + TagCode(op)) % Base, 5>>)))

InitGS(ctx) == [k \in {ctx.gs[i].k : i \in 1..Len(ctx.gs)} |->
                  (CHOOSE e \in {ctx.gs[i] : i \in 1..Len(ctx.gs)} : e.k = k).v]
=============================================================================
