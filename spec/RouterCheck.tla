----------------------------- MODULE RouterCheck ----------------------------
(***************************************************************************)
(* Validation specification for C08: the approval / clear-state programs   *)
(* of a Router are run on the AVM for every call of the call domain (TLC   *)
(* initial states: application arguments x OnCompletion x creation status) *)
(* and the outcome is compared with Router!Dispatch.  Every handler of the *)
(* generated routers logs its own marker:  method i -> <<i>>,              *)
(* bare action for OnCompletion oc -> <<100 + oc>>, clear action -> <<200>>*)
(* Batch entry: [cfg, texts |-> Seq([teal, R, tag, prog |-> "approval" |   *)
(*               "clear"])].                                               *)
(***************************************************************************)
EXTENDS AVM, Router, TLC, Json, IOUtils

Batch == JsonDeserialize(IOEnv.BATCH_FILE)
StepsPerAction == 200

VARIABLES tid, call, k, phase, m
vars == <<tid, call, k, phase, m>>

Unknown == <<1, 2, 3, 4>>
ArgLists(cfg) ==
  {<<>>, <<Unknown>>, <<<<9>>>>, <<<<>>>>}
  \cup {<<cfg.methods[i].sel>> : i \in 1..Len(cfg.methods)}
  \cup {<<cfg.methods[i].sel, <<7>>>> : i \in 1..Len(cfg.methods)}
Calls(cfg) == {[args |-> a, oc |-> oc, appid |-> id] : a \in ArgLists(cfg), oc \in 0..5, id \in {0, 7}}

Entry == Batch[tid]
Text == Entry.texts[k]

CtxOf(c) ==
  [gi |-> 1,
   group |-> <<[f |-> [OnCompletion |-> U(FromInt(c.oc)), ApplicationID |-> U(FromInt(c.appid)), TypeEnum |-> U(<<6>>),
                      Sender |-> B([j \in 1..32 |-> 7])],
               aa |-> c.args, acc |-> <<>>, asst |-> <<>>, apps |-> <<>>]>>,
   glob |-> [CurrentApplicationID |-> U(FromInt(IF c.appid = 0 THEN 1001 ELSE c.appid))],
   args |-> <<>>, gs |-> <<>>, has |-> 1]

Expected(c) == IF Text.prog = "clear" THEN ClearDispatch(Entry.cfg, c) ELSE Dispatch(Entry.cfg, c)
MarkerOf(d) == CASE d[1] = "method" -> <<d[2]>> [] d[1] = "bare" -> <<100 + d[2]>> [] d[1] = "clear" -> <<200>>

\* the ledger runs the clear-state program exactly for OnCompletion = ClearState (3) and the approval program otherwise
Applicable == (Text.prog = "clear") = (call.oc = 3)

Clause ==
  LET d == Expected(call) IN
  IF ~Applicable THEN "n/a"
  ELSE IF m.status = "inconclusive" THEN "inconclusive"
  ELSE IF d[1] = "reject"
       THEN IF m.status = "approve" THEN "approved-but-must-reject" ELSE "ok"
       ELSE IF m.status # "approve" THEN "rejected-but-must-run-" \o d[1]
            ELSE IF m.logs # <<MarkerOf(d)>> THEN "wrong-handler"
            ELSE "ok"

RECURSIVE JoinA(_, _)
JoinA(s, j) == IF j > Len(s) THEN "" ELSE ToString(Len(s[j])) \o "." \o (IF s[j] = <<>> THEN "" ELSE ToString(s[j][1])) \o "," \o JoinA(s, j + 1)
CallStr(c) == JoinA(c.args, 1) \o ";oc=" \o ToString(c.oc) \o ";id=" \o ToString(c.appid)

Init == /\ tid \in 1..Len(Batch) /\ call \in Calls(Batch[tid].cfg)
        /\ k = 1 /\ phase = "run" /\ m = M0(CtxOf(call))
Run == /\ phase = "run" /\ m.status = "run"
       /\ m' = MRun(Text.teal, Text.R, CtxOf(call), m, StepsPerAction)
       /\ UNCHANGED <<tid, call, k, phase>>
Judge == /\ phase = "run" /\ m.status # "run"
         /\ PrintT("V|" \o ToString(tid) \o "|" \o CallStr(call) \o "|" \o ToString(k) \o "|" \o Clause \o "|" \o m.status \o "/" \o m.why)
         /\ IF k < Len(Entry.texts) THEN k' = k + 1 /\ m' = M0(CtxOf(call)) /\ UNCHANGED phase
            ELSE phase' = "done" /\ UNCHANGED <<k, m>>
         /\ UNCHANGED <<tid, call>>
Next == Run \/ Judge
Spec == Init /\ [][Next]_vars

DispatchCorrect == (phase = "run" /\ m.status # "run") => Clause \in {"ok", "inconclusive", "n/a"}
=============================================================================
