------------------------------- MODULE Assign -------------------------------
(***************************************************************************)
(* C19: whenever the implementation lets a value of type a be passed or    *)
(* assigned where b is expected (real = 1), a and b must have the same     *)
(* ARC-4 layout.  One direction only: a stricter implementation is fine.   *)
(* Batch entry: [a, b, real, built, asg] - built = 1 when a subroutine call*)
(* passing an a-typed value to a b-typed parameter was accepted at build.  *)
(* C14 (site = "itxn"): an inner method call is built only with arguments  *)
(* that fit the parameter of the stated signature (Fits).                  *)
(***************************************************************************)
EXTENDS ARC4, Json, IOUtils
Batch == JsonDeserialize(IOEnv.BATCH_FILE)
VARIABLES tid, phase
vars == <<tid, phase>>
Same(e) == Layout(e.a) = Layout(e.b)
\* inner method calls (C14): site = "itxn"; b = the parameter type of the signature; argk = what was passed:
\*   "abi" (an ABI value of type a), "refobj" (an abi.Account/Asset/Application value, a = its type), "txn" (a field
\*   dictionary whose type_enum is kind a.s), "bytes" / "uint" (a plain expression of that stack type), "other"
\*   (not an expression at all), "count" (a wrong number of arguments)
Fits(e) == CASE e.argk \in {"other", "count"} -> FALSE
             [] e.b.k = "txn" -> e.argk = "txn" /\ (e.b.s = "txn" \/ e.a.s = e.b.s)
             [] e.b.k = "ref" -> (e.argk = "refobj" /\ e.a.s = e.b.s) \/ e.argk = (IF e.b.s = "account" THEN "bytes" ELSE "uint")
             [] OTHER -> e.argk = "bytes" \/ (e.argk = "abi" /\ Layout(e.a) = Layout(e.b))
ItxnClause(e) == IF e.built = 1 /\ ~Fits(e) THEN "inner-call-built-with-ill-typed-argument"
                 ELSE IF ~Fits(e) THEN "ok-rejected" ELSE IF e.built = 1 THEN "ok-fits" ELSE "ok-fits-but-rejected"
\* asg = 1 when  b_value.set(a_value)  (copy of the raw encoding; not judged for tuple targets, whose set() takes the
\* elements) or  b_value.set(<computed value of type a>)  was accepted at build time
Clause0(e) == IF e.real = 1 /\ ~Same(e) THEN "assignable-but-different-layout"
             ELSE IF e.built = 1 /\ ~Same(e) THEN "call-built-with-different-layout"
             ELSE IF e.asg = 1 /\ ~Same(e) THEN "assignment-built-with-different-layout"
             ELSE IF Same(e) THEN "ok-same" ELSE "ok-different"
Clause(e) == IF "site" \in DOMAIN e /\ e.site = "itxn" THEN ItxnClause(e) ELSE Clause0(e)
Init == tid \in 1..Len(Batch) /\ phase = "start"
Judge == phase = "start" /\ PrintT("V|" \o ToString(tid) \o "|" \o Clause(Batch[tid])) /\ phase' = "done" /\ UNCHANGED tid
Next == Judge
Spec == Init /\ [][Next]_vars
AssignableSound == phase = "start" => (Batch[tid].real = 1 => Same(Batch[tid]))
=============================================================================
