------------------------------- MODULE Assign -------------------------------
(***************************************************************************)
(* C19: whenever the implementation lets a value of type a be passed or    *)
(* assigned where b is expected (real = 1), a and b must have the same     *)
(* ARC-4 layout.  One direction only: a stricter implementation is fine.   *)
(* Batch entry: [a, b, real, built] - built = 1 when a subroutine call     *)
(* passing an a-typed value to a b-typed parameter was accepted at build.  *)
(***************************************************************************)
EXTENDS ARC4, Json, IOUtils
Batch == JsonDeserialize(IOEnv.BATCH_FILE)
VARIABLES tid, phase
vars == <<tid, phase>>
Same(e) == Layout(e.a) = Layout(e.b)
Clause(e) == IF e.real = 1 /\ ~Same(e) THEN "assignable-but-different-layout"
             ELSE IF e.built = 1 /\ ~Same(e) THEN "call-built-with-different-layout"
             ELSE IF Same(e) THEN "ok-same" ELSE "ok-different"
Init == tid \in 1..Len(Batch) /\ phase = "start"
Judge == phase = "start" /\ PrintT("V|" \o ToString(tid) \o "|" \o Clause(Batch[tid])) /\ phase' = "done" /\ UNCHANGED tid
Next == Judge
Spec == Init /\ [][Next]_vars
AssignableSound == phase = "start" => (Batch[tid].real = 1 => Same(Batch[tid]))
=============================================================================
