--------------------------------- MODULE Lex ---------------------------------
(***************************************************************************)
(* Validation specification for what PyTeal writes into TEAL text, judged  *)
(* with the assembler's own line grammar (TealLex.tla).                    *)
(*                                                                         *)
(* kind "lit" (C13): the program  Pop(<literal>) ; Int(1)  was compiled;   *)
(*   lines = the emitted text as byte sequences, op = expected opcode of   *)
(*   the load, want = the bytes / number the user's literal denotes,       *)
(*   spelling in {"str","hex","b64","b32","addr","method","int"}.         *)
(*   The text must lex to exactly the five statements                      *)
(*   #pragma version v / <op> <literal> / pop / int 1 / return, and the    *)
(*   literal must decode to `want`.                                        *)
(* kind "reject" (C13): input is the user's literal text for a base16 /    *)
(*   base32 / base64 constructor, accepted says whether PyTeal built it:   *)
(*   ill-formed text must be rejected, well-formed text accepted.          *)
(* kind "strip" (C18): a and b are two emitted texts of the same program   *)
(*   with / without annotations; their statement streams must be equal up  *)
(*   to a renaming of labels and the documented `<push nonce> ; pop` pair. *)
(***************************************************************************)
EXTENDS TealLex, FiniteSets, TLC, Json, IOUtils

Batch == JsonDeserialize(IOEnv.BATCH_FILE)

VARIABLES tid, phase
vars == <<tid, phase>>

Asc(s) == s     \* placeholder: byte strings come from the batch as sequences of codes

\* all statements of a text, line by line
RECURSIVE AllStmts(_, _, _)
AllStmts(lines, i, acc) == IF i > Len(lines) THEN acc ELSE AllStmts(lines, i + 1, acc \o Statements(lines[i]))

\* a text both tokenisations of TealLex read alike
\* (an escape-aware reader also refuses a quote inside a literal that is not escaped, the assembler takes it as a character)
InteriorQuote(tok) == /\ Len(tok) >= 2 /\ tok[1] = QUOTE
                      /\ \E p \in 2..(Len(tok) - 1) : tok[p] = QUOTE /\ BslRun(tok, p - 1) % 2 = 0
HasQuote(line) == \E p \in 1..Len(line) : line[p] = QUOTE           \* lines without a quote are read alike by construction
Unambiguous(lines) == \A i \in 1..Len(lines) :
                         HasQuote(lines[i]) => LET toks == Tokens(lines[i]) IN
                                               /\ toks = TokensStrict(lines[i])
                                               /\ \A j \in 1..Len(toks) : ~InteriorQuote(toks[j])

POP == <<112, 111, 112>>
INT == <<105, 110, 116>>
RETURN == <<114, 101, 116, 117, 114, 110>>
PRAGMA == <<35, 112, 114, 97, 103, 109, 97>>
ONE == <<49>>

Decode(e, args) ==
  CASE e.spelling = "int" -> (IF Len(args) = 1 THEN DecimalLit(args[1]) ELSE LBad)
    [] e.spelling = "addr" ->
         (IF Len(args) # 1 THEN LBad
          ELSE LET r == Base32Lit(args[1]) IN IF r.ok /\ Len(r.v) = 36 /\ Len(args[1]) = 58 THEN LOk(SubSeq(r.v, 1, 32)) ELSE LBad)
    [] e.spelling = "method" ->
         (IF Len(args) # 1 THEN LBad
          ELSE LET r == StringLit(args[1]) IN IF r.ok /\ r.v = e.sigtext THEN LOk(e.want) ELSE LBad)
    [] OTHER -> BytesLit(args)

LitClause(e) ==
  LET ss == AllStmts(e.lines, 1, <<>>) IN
  IF ~Unambiguous(e.lines) THEN "literal-read-differently-by-escape-aware-and-assembler-tokenisation"
  ELSE IF Len(ss) # 5 THEN "statement-count=" \o ToString(Len(ss))
  ELSE IF ss[1][1] # PRAGMA THEN "no-pragma"
  ELSE IF ss[3] # <<POP>> \/ ss[4] # <<INT, ONE>> \/ ss[5] # <<RETURN>> THEN "extra-or-changed-instructions"
  ELSE IF ss[2][1] # e.op THEN "opcode"
  ELSE LET r == Decode(e, Tail(ss[2])) IN
       IF ~r.ok THEN "literal-does-not-lex"
       ELSE IF r.v # e.want THEN "literal-value"
       ELSE "ok"

\* ---- well-formedness of base16 / base32 / base64 text (RFC 4648, as the TEAL assembler requires) ----
AllIn(t, P(_)) == \A j \in 1..Len(t) : P(t[j])
DataLen(t) == Cardinality({j \in 1..Len(t) : t[j] # 61})
PadOnlyAtEnd(t) == \A j \in 1..Len(t) : t[j] = 61 => \A q \in j..Len(t) : t[q] = 61
WellFormed(sp, t) ==
  CASE sp = "hex" -> Len(t) % 2 = 0 /\ AllIn(t, LAMBDA c : HexVal(c) >= 0)
    [] sp = "b64" -> /\ Len(t) % 4 = 0 /\ PadOnlyAtEnd(t) /\ Len(t) - DataLen(t) <= 2
                     /\ AllIn(t, LAMBDA c : c = 61 \/ B64Val(c) >= 0)
    [] sp = "b32" -> /\ PadOnlyAtEnd(t) /\ AllIn(t, LAMBDA c : c = 61 \/ B32Val(c) >= 0)
                     /\ DataLen(t) % 8 \in {0, 2, 4, 5, 7}
                     /\ (Len(t) = DataLen(t) \/ Len(t) % 8 = 0)
    [] OTHER -> TRUE

\* e.wf (when present) is a well-formedness verdict the specification cannot compute itself (address checksum: a hash)
WF(e) == IF "wf" \in DOMAIN e THEN e.wf = 1 ELSE WellFormed(e.spelling, e.input)
RejectClause(e) ==
  IF e.accepted = 1 /\ ~WF(e) THEN "malformed-accepted"
  ELSE IF e.accepted = 0 /\ WF(e) THEN "wellformed-rejected"
  ELSE "ok"

\* ---- annotation transparency (C18) -------------------------------------------------------
IsLabelDef(st) == Len(st) = 1 /\ st[1][Len(st[1])] = 58          \* "name:"
BranchOps == {<<98>>, <<98, 122>>, <<98, 110, 122>>, <<99, 97, 108, 108, 115, 117, 98>>}     \* b bz bnz callsub
\* labels in order of first definition -> canonical numbers
RECURSIVE LabelsOf(_, _, _)
LabelsOf(ss, i, acc) ==
  IF i > Len(ss) THEN acc
  ELSE IF IsLabelDef(ss[i]) THEN LabelsOf(ss, i + 1, Append(acc, SubSeq(ss[i][1], 1, Len(ss[i][1]) - 1)))
  ELSE LabelsOf(ss, i + 1, acc)
IndexOf(seq, x) == IF \E j \in 1..Len(seq) : seq[j] = x THEN CHOOSE j \in 1..Len(seq) : seq[j] = x /\ \A q \in 1..(j - 1) : seq[q] # x ELSE 0
Canon(ss) ==
  LET labs == LabelsOf(ss, 1, <<>>) IN
  [i \in 1..Len(ss) |->
     IF IsLabelDef(ss[i]) THEN <<"L", IndexOf(labs, SubSeq(ss[i][1], 1, Len(ss[i][1]) - 1))>>
     ELSE IF ss[i][1] \in BranchOps /\ Len(ss[i]) = 2 THEN <<"J", ss[i][1], IndexOf(labs, ss[i][2])>>
     ELSE <<"I", ss[i]>>]
DupLabels(ss) == LET labs == LabelsOf(ss, 1, <<>>) IN \E i, j \in 1..Len(labs) : i < j /\ labs[i] = labs[j]

\* removes the statements at the positions listed in e.skip (the documented nonce push + pop) from text a
Without(ss, skip) == SelectSeq([j \in 1..Len(ss) |-> IF j \in {skip[x] : x \in 1..Len(skip)} THEN <<>> ELSE ss[j]], LAMBDA s : s # <<>>)

StripClause(e) ==
  LET sa == AllStmts(e.a, 1, <<>>)
      sb == AllStmts(e.b, 1, <<>>)
      sa2 == Without(sa, e.skip)
  IN IF ~Unambiguous(e.a) THEN "annotated-text-read-differently-by-escape-aware-and-assembler-tokenisation"
     ELSE IF DupLabels(sa) THEN "duplicate-label"
     ELSE IF \E j \in 1..Len(e.skip) : e.skip[j] > Len(sa) THEN "nonce-pair-missing"
     ELSE IF \E j \in 1..Len(e.skip) : (j % 2 = 0 /\ sa[e.skip[j]] # <<POP>>) THEN "nonce-pair-shape"
     ELSE IF Len(sa2) # Len(sb) THEN "statement-count " \o ToString(Len(sa2)) \o "/" \o ToString(Len(sb))
     ELSE IF Canon(sa2) # Canon(sb) THEN "instruction-stream"
     ELSE "ok"

Clause(e) == CASE e.kind = "lit" -> LitClause(e) [] e.kind = "reject" -> RejectClause(e) [] e.kind = "strip" -> StripClause(e)

Init == tid \in 1..Len(Batch) /\ phase = "start"
Judge == phase = "start" /\ PrintT("V|" \o ToString(tid) \o "|" \o Clause(Batch[tid])) /\ phase' = "done" /\ UNCHANGED tid
Next == Judge
Spec == Init /\ [][Next]_vars

Faithful == phase = "start" => Clause(Batch[tid]) = "ok"
=============================================================================
