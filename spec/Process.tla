------------------------------- MODULE Process ------------------------------
(***************************************************************************)
(* PyTeal's process-global state and the API calls that touch it.          *)
(*   marker   the class-level "current subroutine frame" marker that ABI   *)
(*            value constructors consult ("none" outside a subroutine      *)
(*            body evaluated for frame pointers)                           *)
(*   inst[p]  the latest instance of program kind p built in this process: *)
(*            "absent", "clean" (its objects were allocated under marker   *)
(*            none) or "tainted" (allocated while a stale marker was set)  *)
(*   hist     the API history with the abstract result of every compile    *)
(* The slot-id and subroutine-id counters only ever influence a program    *)
(* through the *relative order* of its own objects' ids, which no other    *)
(* activity can change; they are therefore not state of this model (the    *)
(* conformance replay observes them and the trace specification requires   *)
(* that results do not depend on them).                                    *)
(* A compile of a program whose subroutine body raises leaves the marker   *)
(* set unless RestoreOnException - the constant switches between the two   *)
(* possible implementations of the marker's context manager.               *)
(***************************************************************************)
EXTENDS Naturals, Sequences, TLC, Json

CONSTANTS RestoreOnException, MaxDepth

Progs == {"plain", "subs", "abimain", "abisub", "router", "tmpl", "itxn"}
Failing == {"raise8", "raise6", "lowver"}         \* compilations that end in a PyTeal error
AbiInMain(p) == p \in {"abimain", "router"}       \* ABI values are created outside any subroutine when p is built
Opts(p) == CASE p = "abisub" -> {"v8", "v8nofp", "v6"} [] p = "router" -> {"v6", "v8"} [] OTHER -> {"v6", "v9"}

VARIABLES marker, inst, hist
vars == <<marker, inst, hist>>

Ev(a, p, o, r) == [act |-> a, p |-> p, o |-> o, res |-> r]

Init == marker = "none" /\ inst = [p \in Progs |-> "absent"] /\ hist = <<>>

Build(p) == /\ inst' = [inst EXCEPT ![p] = IF marker = "set" /\ AbiInMain(p) THEN "tainted" ELSE "clean"]
            /\ hist' = Append(hist, Ev("build", p, "", "")) /\ UNCHANGED marker

\* compiling evaluates subroutine bodies inside the marker's context and restores it on the normal path
Compile(p, o) == /\ inst[p] # "absent"
                 /\ hist' = Append(hist, Ev("compile", p, o, inst[p])) /\ UNCHANGED <<marker, inst>>

\* a compilation that raises: inside a subroutine body evaluated for frame pointers ("raise8") the marker is set
FailCompile(f) == /\ marker' = IF f = "raise8" /\ ~RestoreOnException THEN "set" ELSE marker
                  /\ hist' = Append(hist, Ev("fail", f, "", "error")) /\ UNCHANGED inst

\* unrelated allocations (ScratchVars, subroutine definitions) only advance the counters
Noise == hist' = Append(hist, Ev("noise", "", "", "")) /\ UNCHANGED <<marker, inst>>

Next == /\ Len(hist) < MaxDepth
        /\ \/ \E p \in Progs : Build(p) \/ \E o \in Opts(p) : Compile(p, o)
           \/ \E f \in Failing : FailCompile(f)
           \/ Noise
Spec == Init /\ [][Next]_vars

\* ---- properties -------------------------------------------------------------------------
HistoryIndependence == \A i \in 1..Len(hist) : hist[i].act = "compile" => hist[i].res = "clean"
MarkerRestored == marker = "none"

\* printing of complete histories for the conformance replay
RECURSIVE Render(_, _)
Render(h, i) == IF i > Len(h) THEN "" ELSE h[i].act \o ":" \o h[i].p \o ":" \o h[i].o \o (IF i < Len(h) THEN "," ELSE "") \o Render(h, i + 1)
Emit == Len(hist) = MaxDepth => PrintT("H|" \o Render(hist, 1))
=============================================================================
