------------------------------- MODULE Process ------------------------------
(***************************************************************************)
(* PyTeal's process-global state and the API calls that touch it.          *)
(*   marker   the class-level "current subroutine frame" marker that ABI   *)
(*            value constructors consult ("none" outside a subroutine      *)
(*            body evaluated for frame pointers)                           *)
(*   inst[p]  the latest instance of program kind p built in this process: *)
(*            "absent", "clean" (its objects were allocated under marker   *)
(*            none) or "tainted" (allocated while a stale marker was set)  *)
(*   hist     the API history with the abstract result of every compile    *)
(* The slot-id and subroutine-id counters only ever influence a program    *)
(* through the *relative order* of its own objects' ids, which no other    *)
(* activity can change - with one exception that the code really has and   *)
(* that is modelled here as it is (finding A19): a Router caches the       *)
(* method-handler declarations evaluated by its first compilation attempt  *)
(* (with the slot ids they got) and rewinds the slot counter when the      *)
(* attempt ends.  att[p] says that instance p has been through an attempt, *)
(* stale[p] that some *other* activity allocated slots since then (the     *)
(* cached ids no longer sit directly above the counter).  A later          *)
(* compilation of such an instance may number slots differently: result    *)
(* "a19".  Routers with several methods collide on every re-compilation.   *)
(* Whether an action allocates slots is a parameter (adv): TLC chooses it  *)
(* at the design level, the trace specification binds it to the recorded   *)
(* movement of the counter.                                                *)
(* A compile of a program whose subroutine body raises leaves the marker   *)
(* set unless RestoreOnException - the constant switches between the two   *)
(* possible implementations of the marker's context manager.  A Router     *)
(* compilation that raises rewinds the counter like a successful one       *)
(* unless ~RouterCleansOnException: then the failed attempt itself leaves  *)
(* the counter above the cached declarations ("dirty").                    *)
(***************************************************************************)
EXTENDS Naturals, Sequences, TLC, Json

CONSTANTS RestoreOnException, RouterCleansOnException, MaxDepth

Progs == {"plain", "subs", "abimain", "abisub", "router", "router1", "tmpl", "itxn"}
Routers == {"router", "router1"}
Multi(p) == p = "router"                          \* several method handlers: cached ids collide on every re-compilation
Failing == {"raise8", "raise6", "lowver"}         \* compilations that end in a PyTeal error
AbiInMain(p) == p \in {"abimain", "router", "router1"}       \* ABI values are created outside any subroutine when p is built
Opts(p) == CASE p = "abisub" -> {"v8", "v8nofp", "v6"} [] p \in Routers -> {"v6", "v8"} [] OTHER -> {"v6", "v9"}

VARIABLES marker, inst, att, stale, dirty, hist
vars == <<marker, inst, att, stale, dirty, hist>>

Ev(a, p, o, r) == [act |-> a, p |-> p, o |-> o, res |-> r, pre |-> ""]

Init == /\ marker = "none" /\ inst = [p \in Progs |-> "absent"] /\ hist = <<>>
        /\ att = [p \in Routers |-> FALSE] /\ stale = [p \in Routers |-> FALSE] /\ dirty = [p \in Routers |-> FALSE]

\* slots allocated by anything but an attempt on router instance `self` ("" = none) make every attempted instance stale
Allocated(adv, self) == stale' = [q \in Routers |-> stale[q] \/ (adv /\ att[q] /\ q # self)]

Build(p, adv) ==
  /\ inst' = [inst EXCEPT ![p] = IF marker = "set" /\ AbiInMain(p) THEN "tainted" ELSE "clean"]
  /\ att' = [q \in Routers |-> att[q] /\ q # p]                   \* a new instance has no cached declarations
  /\ dirty' = [q \in Routers |-> dirty[q] /\ q # p]
  /\ stale' = [q \in Routers |-> q # p /\ (stale[q] \/ (adv /\ att[q]))]
  /\ hist' = Append(hist, Ev("build", p, "", "")) /\ UNCHANGED marker

\* compiling evaluates subroutine bodies inside the marker's context and restores it on the normal path
Result(p) == IF inst[p] = "tainted" THEN "tainted"
             ELSE IF p \in Routers /\ att[p] /\ dirty[p] THEN "dirty"
             ELSE IF p \in Routers /\ att[p] /\ (Multi(p) \/ stale[p]) THEN "a19"
             ELSE "clean"
Compile(p, o, adv) ==
  /\ inst[p] # "absent"
  /\ hist' = Append(hist, [Ev("compile", p, o, Result(p)) EXCEPT !.pre = IF p \in Routers /\ att[p] THEN "attempted" ELSE ""])
  /\ att' = IF p \in Routers THEN [att EXCEPT ![p] = TRUE] ELSE att
  /\ Allocated(adv /\ p \notin Routers, p)                        \* a Router compilation rewinds the counter
  /\ UNCHANGED <<marker, inst, dirty>>

\* a compilation that raises: inside a subroutine body evaluated for frame pointers ("raise8") the marker is set
FailCompile(f, adv) ==
  /\ marker' = IF f = "raise8" /\ ~RestoreOnException THEN "set" ELSE marker
  /\ Allocated(adv, "")
  /\ hist' = Append(hist, Ev("fail", f, "", "error")) /\ UNCHANGED <<inst, att, dirty>>

\* a compilation attempt on an existing Router instance that ends in a PyTeal error after the handlers were evaluated
FailRouter(p) ==
  /\ p \in Routers /\ inst[p] # "absent"
  /\ att' = [att EXCEPT ![p] = TRUE]
  /\ dirty' = [dirty EXCEPT ![p] = dirty[p] \/ ~RouterCleansOnException]
  /\ Allocated(~RouterCleansOnException, p)                        \* without cleanup the attempt itself moves the counter
  /\ hist' = Append(hist, Ev("failr", p, "v5", "error")) /\ UNCHANGED <<marker, inst>>

\* unrelated allocations (ScratchVars, subroutine definitions) only advance the counters
Noise == hist' = Append(hist, Ev("noise", "", "", "")) /\ Allocated(TRUE, "") /\ UNCHANGED <<marker, inst, att, dirty>>

Next == /\ Len(hist) < MaxDepth
        /\ \/ \E p \in Progs, adv \in BOOLEAN : Build(p, adv) \/ \E o \in Opts(p) : Compile(p, o, adv)
           \/ \E f \in Failing, adv \in BOOLEAN : FailCompile(f, adv)
           \/ \E p \in Routers : FailRouter(p)
           \/ Noise
Spec == Init /\ [][Next]_vars

\* ---- properties -------------------------------------------------------------------------
\* the property as stated (violated by the code as it is: finding A19) and the property modulo that recorded deviation
HistoryIndependenceStrict == \A i \in 1..Len(hist) : hist[i].act = "compile" => hist[i].res = "clean"
HistoryIndependence == \A i \in 1..Len(hist) : hist[i].act = "compile" => hist[i].res \in {"clean", "a19"}
MarkerRestored == marker = "none"

\* printing of complete histories for the conformance replay
RECURSIVE Render(_, _)
Render(h, i) == IF i > Len(h) THEN "" ELSE h[i].act \o ":" \o h[i].p \o ":" \o h[i].o \o (IF i < Len(h) THEN "," ELSE "") \o Render(h, i + 1)
\* coverage signature of the last transition: the event with its predicted result, what the instance had been through,
\* and the kind of the event before it (relative to the same instance) - the harness replays at least one history per signature
Sig == LET n == Len(hist)  e == hist[n]
           prev == IF n = 1 THEN "first" ELSE hist[n - 1].act \o (IF hist[n - 1].act \in {"build", "compile", "failr"}
                                                                  THEN (IF hist[n - 1].p = e.p THEN ":same" ELSE ":other") ELSE "")
       IN e.act \o ":" \o e.p \o ":" \o e.o \o ":" \o e.res \o ":" \o e.pre \o ":" \o (IF e.act = "compile" THEN prev ELSE "")
Emit == Len(hist) = MaxDepth => PrintT("H|" \o Render(hist, 1) \o "|" \o Sig)
=============================================================================
