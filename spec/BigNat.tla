------------------------------- MODULE BigNat -------------------------------
(***************************************************************************)
(* Natural numbers of unbounded size as big-endian digit sequences in base *)
(* Base, normalised (no leading zero digit; zero is the empty sequence).   *)
(* TLC integers are 32-bit, so every uint64 / uint128 / byte-math value of *)
(* the AVM and of the PyTeal source semantics lives here.  With Base = 256 *)
(* the digit sequence padded to WD digits is exactly the `itob` image.     *)
(* All partial results stay below 2^31 (Base <= 256).                      *)
(***************************************************************************)
EXTENDS Naturals, Sequences, Bitwise

CONSTANTS Base,      \* digit base: 256 (production) or 16 (scaled model)
          WD         \* digits in a machine word: 8 (uint64) or 1/2 (scaled)

Digit == 0 .. (Base - 1)

Max2(a, b) == IF a >= b THEN a ELSE b
Min2(a, b) == IF a <= b THEN a ELSE b

RECURSIVE StripZ(_)
StripZ(s) == IF s = <<>> THEN <<>>
             ELSE IF s[1] = 0 THEN StripZ(Tail(s)) ELSE s
Norm(s) == StripZ(s)

Zero == <<>>
One  == <<1>>
IsZero(a) == a = <<>>

\* digit i (0 = least significant) of normalised a, 0 beyond the top
Dg(a, i) == IF i < Len(a) THEN a[Len(a) - i] ELSE 0

\* left-pad with zeros to n digits (n >= Len(a))
RECURSIVE Zeros(_)
Zeros(n) == IF n = 0 THEN <<>> ELSE <<0>> \o Zeros(n - 1)
Pad(a, n) == IF Len(a) >= n THEN a ELSE Zeros(n - Len(a)) \o a

RECURSIVE AddR(_, _, _, _, _)
AddR(a, b, i, c, acc) ==
  IF i >= Len(a) /\ i >= Len(b)
  THEN (IF c = 0 THEN acc ELSE <<c>> \o acc)
  ELSE LET d == Dg(a, i) + Dg(b, i) + c
       IN AddR(a, b, i + 1, d \div Base, <<d % Base>> \o acc)
Add(a, b) == IF a = <<>> THEN b ELSE IF b = <<>> THEN a ELSE AddR(a, b, 0, 0, <<>>)

\* -1, 0, 1
RECURSIVE CmpLex(_, _, _)
CmpLex(a, b, i) == IF i > Len(a) THEN 0
                   ELSE IF a[i] < b[i] THEN 0 - 1
                   ELSE IF a[i] > b[i] THEN 1
                   ELSE CmpLex(a, b, i + 1)
Cmp(a, b) == IF Len(a) < Len(b) THEN 0 - 1
             ELSE IF Len(a) > Len(b) THEN 1
             ELSE CmpLex(a, b, 1)
Lt(a, b) == Cmp(a, b) < 0
Le(a, b) == Cmp(a, b) <= 0

\* a - b for a >= b
RECURSIVE SubR(_, _, _, _, _)
SubR(a, b, i, bw, acc) ==
  IF i >= Len(a) THEN Norm(acc)
  ELSE LET d == Dg(a, i) - Dg(b, i) - bw
       IN IF d < 0 THEN SubR(a, b, i + 1, 1, <<d + Base>> \o acc)
          ELSE SubR(a, b, i + 1, 0, <<d>> \o acc)
Sub(a, b) == IF b = <<>> THEN a ELSE SubR(a, b, 0, 0, <<>>)

\* a * d for one digit d
RECURSIVE MulDR(_, _, _, _, _)
MulDR(a, d, i, c, acc) ==
  IF i >= Len(a) THEN (IF c = 0 THEN acc ELSE <<c>> \o acc)
  ELSE LET p == a[Len(a) - i] * d + c
       IN MulDR(a, d, i + 1, p \div Base, <<p % Base>> \o acc)
MulD(a, d) == IF d = 0 \/ a = <<>> THEN <<>> ELSE IF d = 1 THEN a ELSE MulDR(a, d, 0, 0, <<>>)

\* a * Base^k
ShiftD(a, k) == IF a = <<>> THEN <<>> ELSE a \o Zeros(k)

RECURSIVE MulR(_, _, _, _)
MulR(a, b, j, acc) ==      \* j-th digit of b from the most significant end
  IF j > Len(b) THEN acc
  ELSE MulR(a, b, j + 1, Add(ShiftD(acc, 1), MulD(a, b[j])))
Mul(a, b) == IF a = <<>> \/ b = <<>> THEN <<>> ELSE MulR(a, b, 1, <<>>)

\* largest q in lo..hi with b*q <= r   (b > 0; b*lo <= r assumed)
RECURSIVE QDigit(_, _, _, _)
QDigit(r, b, lo, hi) ==
  IF lo = hi THEN lo
  ELSE LET mid == (lo + hi + 1) \div 2
       IN IF Le(MulD(b, mid), r) THEN QDigit(r, b, mid, hi) ELSE QDigit(r, b, lo, mid - 1)

\* long division, b > 0: result <<quotient, remainder>>
RECURSIVE DivR(_, _, _, _, _)
DivR(a, b, j, q, r) ==
  IF j > Len(a) THEN <<Norm(q), r>>
  ELSE LET r1 == Norm(r \o <<a[j]>>)
           qd == IF Lt(r1, b) THEN 0 ELSE QDigit(r1, b, 1, Base - 1)
       IN DivR(a, b, j + 1, q \o <<qd>>, IF qd = 0 THEN r1 ELSE Sub(r1, MulD(b, qd)))
DivMod(a, b) == IF Lt(a, b) THEN <<(<<>>), a>> ELSE DivR(a, b, 1, <<>>, <<>>)
Div(a, b) == DivMod(a, b)[1]
Mod(a, b) == DivMod(a, b)[2]

\* conversions with TLC integers (only for values known to be small)
RECURSIVE ToIntR(_, _, _)
ToIntR(a, i, acc) == IF i > Len(a) THEN acc ELSE ToIntR(a, i + 1, acc * Base + a[i])
Small(a) == Len(a) * (IF Base = 256 THEN 8 ELSE 4) <= 24      \* value < 2^24
ToInt(a) == ToIntR(a, 1, 0)
RECURSIVE FromInt(_)
FromInt(n) == IF n = 0 THEN <<>> ELSE FromInt(n \div Base) \o <<n % Base>>

\* machine words
FitsWord(a) == Len(a) <= WD
FitsDWord(a) == Len(a) <= 2 * WD
WordMax == [i \in 1..WD |-> Base - 1]
\* low word / high word of a double word
LoWord(a) == IF Len(a) <= WD THEN a ELSE Norm(SubSeq(a, Len(a) - WD + 1, Len(a)))
HiWord(a) == IF Len(a) <= WD THEN <<>> ELSE SubSeq(a, 1, Len(a) - WD)
\* hi * Base^WD + lo
DWord(hi, lo) == IF hi = <<>> THEN lo ELSE hi \o Pad(lo, WD)

BitsPerDigit == IF Base = 256 THEN 8 ELSE 4
WordBits == WD * BitsPerDigit

RECURSIVE Pow2(_)
Pow2(n) == IF n < BitsPerDigit THEN <<2 ^ n>> ELSE Pow2(n - BitsPerDigit) \o <<0>>

\* bit length of a normalised number
RECURSIVE DigitBits(_)
DigitBits(d) == IF d = 0 THEN 0 ELSE 1 + DigitBits(d \div 2)
BitLen(a) == IF a = <<>> THEN 0 ELSE (Len(a) - 1) * BitsPerDigit + DigitBits(a[1])

\* digit-wise boolean operations on equal-length digit strings
MapAnd(x, y) == [i \in 1..Len(x) |-> x[i] & y[i]]
MapOr(x, y)  == [i \in 1..Len(x) |-> x[i] | y[i]]
MapXor(x, y) == [i \in 1..Len(x) |-> x[i] ^^ y[i]]
MapNot(x)    == [i \in 1..Len(x) |-> (Base - 1) - x[i]]

\* word-level boolean operations (operands normalised words)
WAnd(a, b) == Norm(MapAnd(Pad(a, WD), Pad(b, WD)))
WOr(a, b)  == Norm(MapOr(Pad(a, WD), Pad(b, WD)))
WXor(a, b) == Norm(MapXor(Pad(a, WD), Pad(b, WD)))
WNot(a)    == Norm(MapNot(Pad(a, WD)))

\* a * 2^n mod 2^WordBits ; a div 2^n     (n < WordBits)
Shl(a, n) == LoWord(Mul(a, Pow2(n)))
Shr(a, n) == Div(a, Pow2(n))

\* integer square root by bit search
RECURSIVE SqrtR(_, _, _)
SqrtR(a, bit, acc) ==
  IF bit < 0 THEN acc
  ELSE LET c == Add(acc, Pow2(bit))
       IN IF Le(Mul(c, c), a) THEN SqrtR(a, bit - 1, c) ELSE SqrtR(a, bit - 1, acc)
Sqrt(a) == IF a = <<>> THEN <<>> ELSE SqrtR(a, (BitLen(a) + 1) \div 2, <<>>)

\* a^e with a size guard: result is <<>>-tagged: [ok |-> BOOLEAN, v |-> nat]; ok = FALSE
\* as soon as the running product exceeds `limit` digits.
RECURSIVE PowR(_, _, _, _)
PowR(a, e, acc, limit) ==
  IF e = 0 THEN [ok |-> TRUE, v |-> acc]
  ELSE LET p == Mul(acc, a)
       IN IF Len(p) > limit THEN [ok |-> FALSE, v |-> <<>>] ELSE PowR(a, e - 1, p, limit)
\* exponent given as a nat; bases 0 and 1 short-cut so that huge exponents are harmless
Pow(a, e, limit) ==
  IF e = <<>> THEN [ok |-> TRUE, v |-> One]
  ELSE IF a = <<>> THEN [ok |-> TRUE, v |-> <<>>]
  ELSE IF a = One THEN [ok |-> TRUE, v |-> One]
  ELSE IF ~Small(e) \/ ToInt(e) > limit * BitsPerDigit THEN [ok |-> FALSE, v |-> <<>>]
  ELSE PowR(a, ToInt(e), One, limit)
=============================================================================
