------------------------------ MODULE DefInit -------------------------------
(***************************************************************************)
(* Definite initialisation of routine-local scratch variables, decided on  *)
(* the recipe (the source program), independently of PyTeal's block graph. *)
(*                                                                         *)
(* A path state is [dead, s]: dead = no syntactic path reaches this point; *)
(* s = variables stored on EVERY syntactic path reaching it.  Because the  *)
(* problem is a distributive gen/kill problem, the meet over all paths is  *)
(* the intersection at joins; loops need no iteration since stored sets    *)
(* only grow along a path (the first evaluation of a loop condition sees   *)
(* the smallest set).                                                      *)
(* Flow(node, st, L) = [out, brk, cont, bad]: state at normal exit, meet of*)
(* the states at Break / Continue not yet consumed by a loop, and the set  *)
(* of variables of L loaded on some path on which they were never stored.  *)
(* Branches are taken both ways whatever the condition is (syntactic       *)
(* paths); Return/Approve/Reject/Err end a path; Cond without a true arm   *)
(* ends in err.  Passing a variable by reference is neither load nor store.*)
(***************************************************************************)
EXTENDS Naturals, Sequences, FiniteSets

Dead == [dead |-> TRUE, s |-> {}, g |-> FALSE]
Live(s) == [dead |-> FALSE, s |-> s, g |-> FALSE]
\* g ("ghost", only in the nt reading below): the point directly after a Return/Approve/Reject/Err.  PyTeal's analysis
\* stops at a block that ends in such an instruction, but its block normalisation first merges a block into its only
\* predecessor: code that follows the terminator in a straight line is analysed as if reachable, code behind a join
\* that has another incoming edge is not.  Hence: a ghost entering the next construct is live (Unghost); at a join a
\* ghost edge does not count when there is a live one, two ghost edges make the join unreachable, and a ghost edge
\* that is the only one left (the other arms left by Break/Continue) stays a ghost.
Ghost(st) == IF st.dead THEN st ELSE [st EXCEPT !.g = TRUE]
Unghost(st) == IF st.dead THEN st ELSE [st EXCEPT !.g = FALSE]
Meet(a, b) == IF a.dead THEN b ELSE IF b.dead THEN a
              ELSE IF a.g /\ b.g THEN Dead ELSE IF a.g THEN b ELSE IF b.g THEN a ELSE Live(a.s \cap b.s)
AddV(st, v) == IF st.dead THEN st ELSE [st EXCEPT !.s = st.s \cup {v}]

FR(out, brk, cont, bad) == [out |-> out, brk |-> brk, cont |-> cont, bad |-> bad]

RECURSIVE FlowG(_, _, _, _), FlowSeq(_, _, _, _, _, _), FlowCond(_, _, _, _, _, _)

\* children a[i..] one after the other; acc carries brk/cont/bad so far
FlowSeq(a, i, st, L, acc, nt) ==
  IF i > Len(a) THEN FR(st, acc.brk, acc.cont, acc.bad)
  ELSE LET r == FlowG(a[i], st, L, nt) IN
       FlowSeq(a, i + 1, r.out, L, FR(Dead, Meet(acc.brk, r.brk), Meet(acc.cont, r.cont), acc.bad \cup r.bad), nt)

Empty == FR(Dead, Dead, Dead, {})

\* Cond arms a[i], a[i+1]: condition then body; falling through every condition is err
FlowCond(a, i, st, L, acc, nt) ==
  IF i > Len(a) THEN FR(acc.out, acc.brk, acc.cont, acc.bad)
  ELSE LET c == FlowG(a[i], st, L, nt)
           b == FlowG(a[i + 1], c.out, L, nt)
       IN FlowCond(a, i + 2, c.out, L,
                   FR(Meet(acc.out, b.out), Meet(acc.brk, Meet(c.brk, b.brk)), Meet(acc.cont, Meet(c.cont, b.cont)),
                      acc.bad \cup c.bad \cup b.bad), nt)

FlowG(node, st0, L, nt) ==
  LET k == node.k
      a == node.a
      st == Unghost(st0)
  IN
  CASE k = "Load" ->
         FR(st, Dead, Dead, IF node.i[1] \in L /\ ~st.dead /\ node.i[1] \notin st.s THEN {node.i[1]} ELSE {})
    [] k = "Store" ->
         LET r == FlowG(a[1], st, L, nt) IN FR(AddV(r.out, node.i[1]), r.brk, r.cont, r.bad)
    [] k = "Break" -> FR(Dead, st, Dead, {})
    [] k = "Continue" -> FR(Dead, Dead, st, {})
    [] k \in {"Approve", "Reject", "Err"} -> FR(IF nt THEN Ghost(st) ELSE Dead, Dead, Dead, {})
    [] k = "Return" ->
         LET r == FlowSeq(a, 1, st, L, Empty, nt) IN FR(IF nt THEN Ghost(IF a = <<>> THEN st ELSE r.out) ELSE Dead, r.brk, r.cont, r.bad)
    [] k = "If" ->
         LET c == FlowG(a[1], st, L, nt)
             t == FlowG(a[2], c.out, L, nt)
             e == IF Len(a) >= 3 THEN FlowG(a[3], c.out, L, nt) ELSE FR(c.out, Dead, Dead, {})
         IN FR(Meet(t.out, e.out), Meet(c.brk, Meet(t.brk, e.brk)), Meet(c.cont, Meet(t.cont, e.cont)),
               c.bad \cup t.bad \cup e.bad)
    [] k = "Cond" -> FlowCond(a, 1, st, L, Empty, nt)
    [] k = "While" ->
         LET c == FlowG(a[1], st, L, nt)
             b == FlowG(a[2], c.out, L, nt)
         IN FR(Meet(c.out, b.brk), Dead, Dead, c.bad \cup b.bad)
    [] k = "For" ->
         LET s0 == FlowG(a[1], st, L, nt)
             c == FlowG(a[2], s0.out, L, nt)
             b == FlowG(a[4], c.out, L, nt)
             sp == FlowG(a[3], Meet(b.out, b.cont), L, nt)
         IN FR(Meet(c.out, b.brk), Dead, Dead, s0.bad \cup c.bad \cup b.bad \cup sp.bad)
    [] OTHER -> FlowSeq(a, 1, st, L, Empty, nt)      \* operands / statements in written order

\* nt = FALSE: Return/Approve/Reject/Err end a path (the definition the property uses).
\* nt = TRUE: PyTeal's reading, in which code that follows a terminator in a straight line counts as reachable (ghost states
\* above).  The acceptance claim of C20 is only made for programs that are initialised under both readings (conservative;
\* never used to demand a rejection).
Flow(node, st, L) == FlowG(node, st, L, FALSE)

\* ---- which variables are local to which routine ------------------------------------------
RECURSIVE UsedVars(_), UsedVarsSeq(_, _)
UsedVarsSeq(a, i) == IF i > Len(a) THEN {} ELSE UsedVars(a[i]) \cup UsedVarsSeq(a, i + 1)
UsedVars(node) ==
  (IF node.k \in {"Load", "Store", "Ref", "Idx"} THEN {node.i[1]} ELSE IF node.k = "DynSet" THEN {node.i[2]} ELSE {})
  \cup UsedVarsSeq(node.a, 1)

\* DynamicScratchVar objects (each needs a slot of its own for the index it holds)
RECURSIVE UsedDyns(_), UsedDynsSeq(_, _)
UsedDynsSeq(a, i) == IF i > Len(a) THEN {} ELSE UsedDyns(a[i]) \cup UsedDynsSeq(a, i + 1)
UsedDyns(node) == (IF node.k \in {"DynSet", "DynLoad", "DynStore"} THEN {node.i[1]} ELSE {}) \cup UsedDynsSeq(node.a, 1)

\* routine 0 is main; only routines reachable from main through calls are compiled
RECURSIVE Callees(_), CalleesSeq(_, _)
CalleesSeq(a, i) == IF i > Len(a) THEN {} ELSE Callees(a[i]) \cup CalleesSeq(a, i + 1)
Callees(node) == (IF node.k = "Call" THEN {node.i[1]} ELSE {}) \cup CalleesSeq(node.a, 1)

BodyOf(prog, r) == IF r = 0 THEN prog.main ELSE prog.rt[r].body
RECURSIVE ReachFrom(_, _)
ReachFrom(prog, S) ==
  LET T == S \cup UNION {Callees(BodyOf(prog, r)) : r \in S} IN IF T = S THEN S ELSE ReachFrom(prog, T)
Routines(prog) == ReachFrom(prog, {0})
LocalsOf(prog, r) ==
  {v \in UsedVars(BodyOf(prog, r)) : \A q \in Routines(prog) \ {r} : v \notin UsedVars(BodyOf(prog, q))}

BadLoads(prog) ==
  UNION {Flow(BodyOf(prog, r), Live({}), LocalsOf(prog, r)).bad : r \in Routines(prog)}

MustReject(prog) == BadLoads(prog) # {}
BadLoadsDeadCode(prog) ==
  UNION {FlowG(BodyOf(prog, r), Live({}), LocalsOf(prog, r), TRUE).bad : r \in Routines(prog)}
=============================================================================
