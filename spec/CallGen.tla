------------------------------- MODULE CallGen ------------------------------
(***************************************************************************)
(* The ARC-4 calling convention, client side (C09, C14): for a method      *)
(* signature (parameter types incl. reference and transaction kinds) and   *)
(* sample argument values the specification computes what a conforming     *)
(* client sends:                                                           *)
(*  - application arguments after the selector: one per non-transaction    *)
(*    parameter in order; with more than 15 of them the 15th and later are *)
(*    packed as one tuple in the 15th;                                     *)
(*  - reference parameters travel as a one-byte index into the foreign     *)
(*    array of their kind: accounts and applications 1-based (0 is the     *)
(*    sender / the called application), assets 0-based;                    *)
(*  - transaction parameters are the transactions immediately preceding    *)
(*    the application call in the group, in declaration order;             *)
(* and the value an "echo" handler returns: the concatenation of a digest  *)
(* of every argument (plain: its encoding; account: the address; asset /   *)
(* application: the id as 8 bytes; transaction: its type enum as 8 bytes), *)
(* logged as 0x151f7c75 ++ Encode(string, echo).                           *)
(* Batch in: Seq([params |-> Seq(type), vj |-> sample index]).             *)
(***************************************************************************)
EXTENDS ARC4, Json, IOUtils

Batch == JsonDeserialize(IOEnv.BATCH_FILE)
VARIABLES tid, done
vars == <<tid, done>>

TypeEnumOf(kind) == CASE kind = "pay" -> 1 [] kind = "keyreg" -> 2 [] kind = "acfg" -> 3 [] kind = "axfer" -> 4
                      [] kind = "afrz" -> 5 [] kind = "appl" -> 6 [] kind = "txn" -> 1
Itob8(n) == Pad(FromInt(n), 8)
AddrOf(j) == [q \in 1..32 |-> 40 + j]
AssetId(j) == 500 + j
AppId(j) == 900 + j

\* number of parameters of kind `kind` among ps[1..j]
RECURSIVE CountKind(_, _, _)
CountKind(ps, j, s) == IF j = 0 THEN 0 ELSE (IF ps[j].k = "ref" /\ ps[j].s = s THEN 1 ELSE 0) + CountKind(ps, j - 1, s)

IsTxn(p) == p.k = "txn"
NonTxnIdx(ps) == SelectSeq([j \in 1..Len(ps) |-> j], LAMBDA j : ~IsTxn(ps[j]))
TxnIdx(ps) == SelectSeq([j \in 1..Len(ps) |-> j], LAMBDA j : IsTxn(ps[j]))

\* value sent for parameter j: plain -> sample value; reference -> its index byte
ArgType(ps, j) == IF ps[j].k = "ref" THEN TByte ELSE ps[j]
ArgVal(ps, j, vj) ==
  IF ps[j].k = "ref"
  THEN (IF ps[j].s = "asset" THEN CountKind(ps, j, "asset") - 1 ELSE CountKind(ps, j, ps[j].s))
  ELSE Val(ps[j], vj + j)

AppArgs(ps, vj) ==
  LET ix == NonTxnIdx(ps)
      n == Len(ix)
      one(q) == Encode(ArgType(ps, ix[q]), ArgVal(ps, ix[q], vj))
  IN IF n <= 15 THEN [q \in 1..n |-> one(q)]
     ELSE [q \in 1..14 |-> one(q)]
          \o <<Encode(TTup([q \in 1..(n - 14) |-> ArgType(ps, ix[14 + q])]), [q \in 1..(n - 14) |-> ArgVal(ps, ix[14 + q], vj)])>>

Piece(ps, j, vj) ==
  CASE ps[j].k = "txn" -> Itob8(TypeEnumOf(ps[j].s))
    [] ps[j].k = "ref" /\ ps[j].s = "account" -> AddrOf(CountKind(ps, j, "account"))
    [] ps[j].k = "ref" /\ ps[j].s = "asset" -> Itob8(AssetId(CountKind(ps, j, "asset")))
    [] ps[j].k = "ref" /\ ps[j].s = "application" -> Itob8(AppId(CountKind(ps, j, "application")))
    [] OTHER -> Encode(ps[j], Val(ps[j], vj + j))
RECURSIVE Echo(_, _, _)
Echo(ps, j, vj) == IF j > Len(ps) THEN <<>> ELSE Piece(ps, j, vj) \o Echo(ps, j + 1, vj)

Out(e) ==
  LET ps == e.params
      tx == TxnIdx(ps)
  IN [appargs |-> AppArgs(ps, e.vj),
      accounts |-> [q \in 1..CountKind(ps, Len(ps), "account") |-> AddrOf(q)],
      assets |-> [q \in 1..CountKind(ps, Len(ps), "asset") |-> AssetId(q)],
      apps |-> [q \in 1..CountKind(ps, Len(ps), "application") |-> AppId(q)],
      txns |-> [q \in 1..Len(tx) |-> TypeEnumOf(ps[tx[q]].s)],
      echo |-> Echo(ps, 1, e.vj),
      retlog |-> <<21, 31, 124, 117>> \o Encode(TStr, Echo(ps, 1, e.vj)),
      plainvals |-> [j \in 1..Len(ps) |-> IF ps[j].k \in {"ref", "txn"} THEN <<>> ELSE Val(ps[j], e.vj + j)]]

Init == tid \in 1..Len(Batch) /\ done = FALSE
Emit == ~done /\ done' = TRUE /\ UNCHANGED tid /\ PrintT("C|" \o ToString(tid) \o "|" \o ToJson(Out(Batch[tid])))
Next == Emit
Spec == Init /\ [][Next]_vars
=============================================================================
