-------------------------------- MODULE AVM ---------------------------------
(***************************************************************************)
(* The target machine: a small-step semantics of TEAL as PyTeal emits it   *)
(* (program versions 2..10).  A program P is a sequence of instruction     *)
(* records [op, i, b, s, t, cs] produced from the emitted text:            *)
(*   op  opcode spelling ("label" for a label line, which is a no-op)      *)
(*   i   small integer immediates,  b  constant payload (nat digits for    *)
(*   int/pushint, bytes for byte/pushbytes/addr/method),  s  field or      *)
(*   label name,  t  resolved branch/callsub target (pc of the label),     *)
(*   cs  constants of an intcblock/bytecblock.                             *)
(* MStep(P, R, ctx, m) is the successor of machine record m.  R maps a     *)
(* subroutine label to its declared [na, nr] and is used by ghost checks   *)
(* only (fields ghost, exits, snap are never read by the semantics).       *)
(* Facts relied on: DESIGN.md Appendix B.                                  *)
(***************************************************************************)
EXTENDS Ctx

CONSTANT MaxSteps      \* instruction budget of one run; exceeding it is `inconclusive`, never a verdict

MaxStack == 1000
MaxLogs == 32
MaxLogBytes == 1024

M0(ctx) == [pc |-> 1, st |-> <<>>, sc |-> <<>>, fr |-> <<>>, status |-> "run", why |-> "",
            logs |-> <<>>, gs |-> InitGS(ctx), ls |-> <<>>, bx |-> <<>>, writes |-> <<>>,
            itx |-> <<>>, sub |-> <<>>, icb |-> <<>>, bcb |-> <<>>, steps |-> 0,
            ghost |-> <<>>, exits |-> <<>>]

\* maps are kept sparse: a function whose DOMAIN is the set of written keys (<<>> = empty)
MapGet(f, k, dflt) == IF k \in DOMAIN f THEN f[k] ELSE dflt
MapPut(f, k, v) == [x \in (DOMAIN f) \cup {k} |-> IF x = k THEN v ELSE f[x]]
MapDel(f, k) == [x \in (DOMAIN f) \ {k} |-> f[x]]

Halt(m, status, why) == [m EXCEPT !.status = status, !.why = why]
MFail(m, why) == Halt(m, "fail", why)

TopN(st, n) == SubSeq(st, Len(st) - n + 1, Len(st))       \* deepest first
PopN(st, n) == SubSeq(st, 1, Len(st) - n)
Peek(st) == st[Len(st)]

Goto(m, st, pc) == [m EXCEPT !.st = st, !.pc = pc]
Next1(m, st) == [m EXCEPT !.st = st, !.pc = m.pc + 1]

\* apply an operator result r (from Vals/Ctx) after popping n values
Apply(m, n, r) ==
  IF ~r.ok THEN MFail(m, r.why)
  ELSE IF Len(m.st) - n + Len(r.v) > MaxStack THEN MFail(m, "stack-overflow")
  ELSE Next1(m, PopN(m.st, n) \o r.v)

NeedU(m, k) == m.st[Len(m.st) - k].t = "u"      \* k = 0 is the top
NeedB(m, k) == m.st[Len(m.st) - k].t = "b"

\* number of stack arguments of every non-pure opcode (for the underflow check)
Arity(ins) ==
  LET op == ins.op IN
  CASE op \in PureOps -> Len(Sig(op))
    [] op \in {"int", "pushint", "byte", "pushbytes", "addr", "method", "intc", "intc_0", "intc_1",
               "intc_2", "intc_3", "bytec", "bytec_0", "bytec_1", "bytec_2", "bytec_3", "intcblock",
               "bytecblock", "label", "b", "callsub", "retsub", "proto", "txn", "txna", "gtxn", "gtxna",
               "global", "load", "arg", "arg_0", "arg_1", "arg_2", "arg_3", "err", "frame_dig",
               "itxn_begin", "itxn_next", "itxn_submit", "itxn", "itxna", "gitxn", "gitxna", "gload",
               "gaid", "pragma", "pushints", "pushbytess"} -> 0
    [] op \in {"store", "pop", "dup", "bz", "bnz", "assert", "return", "txnas", "gtxnas", "gtxns", "gtxnsa",
               "loads", "args", "log", "itxn_field", "itxnas", "gitxnas", "gloads", "gaids", "balance",
               "min_balance", "app_global_get", "app_global_del", "frame_bury", "box_del", "box_len",
               "box_get", "asset_params_get", "app_params_get", "acct_params_get", "bury"} -> 1
    [] op \in {"swap", "dup2", "stores", "gtxnsas", "gloadss", "app_opted_in", "app_local_get",
               "app_global_get_ex", "app_global_put", "app_local_del", "asset_holding_get", "box_create",
               "box_put", "box_resize"} -> 2
    [] op \in {"app_local_get_ex", "app_local_put", "box_extract", "box_replace"} -> 3
    [] op = "box_splice" -> 4
    [] op \in {"dig", "uncover", "cover"} -> ins.i[1] + 1
    [] op = "popn" -> ins.i[1]
    [] op = "dupn" -> 1
    [] OTHER -> 0

ItxnArrayLimit(f) == CASE f = "ApplicationArgs" -> 16 [] f = "Accounts" -> 4 [] f = "Assets" -> 8
                       [] f = "Applications" -> 8 [] OTHER -> 4
ItxnArrayFields == {"ApplicationArgs", "Accounts", "Assets", "Applications", "ApprovalProgramPages",
                    "ClearStateProgramPages"}
ItxnUintFields ==
  {"Fee", "FirstValid", "LastValid", "Amount", "VoteFirst", "VoteLast", "VoteKeyDilution", "TypeEnum",
   "XferAsset", "AssetAmount", "ApplicationID", "OnCompletion", "ConfigAsset", "ConfigAssetTotal",
   "ConfigAssetDecimals", "ConfigAssetDefaultFrozen", "FreezeAsset", "FreezeAssetFrozen", "Assets",
   "Applications", "GlobalNumUint", "GlobalNumByteSlice", "LocalNumUint", "LocalNumByteSlice",
   "ExtraProgramPages", "Nonparticipation"}
EmptyItxn == [f |-> <<>>, a |-> <<>>]
LogBytes(logs) == SumLen([k \in 1..Len(logs) |-> B(logs[k])], 1)

\* the frame of the running routine
CurFr(m) == m.fr[Len(m.fr)]

\* ---- one instruction ---------------------------------------------------------
Exec(P, R, ctx, m) ==
  LET ins == P[m.pc]
      op == ins.op
      st == m.st
      n == Len(st)
  IN
  IF op \in PureOps
  THEN LET k == Len(Sig(op)) IN Apply(m, k, PureOp(op, ins.i \o SImm(ins.s), TopN(st, k)))
  ELSE
  CASE op \in {"label", "pragma"} -> Next1(m, st)
    [] op \in {"int", "pushint"} -> Next1(m, Append(st, U(ins.b)))
    [] op \in {"byte", "pushbytes", "addr", "method"} -> Next1(m, Append(st, B(ins.b)))
    [] op = "intcblock" -> [m EXCEPT !.icb = ins.cs, !.pc = m.pc + 1]
    [] op = "bytecblock" -> [m EXCEPT !.bcb = ins.cs, !.pc = m.pc + 1]
    [] op \in {"intc", "intc_0", "intc_1", "intc_2", "intc_3"} ->
         IF ins.i[1] >= Len(m.icb) THEN MFail(m, "range") ELSE Next1(m, Append(st, U(m.icb[ins.i[1] + 1])))
    [] op \in {"bytec", "bytec_0", "bytec_1", "bytec_2", "bytec_3"} ->
         IF ins.i[1] >= Len(m.bcb) THEN MFail(m, "range") ELSE Next1(m, Append(st, B(m.bcb[ins.i[1] + 1])))
    [] op = "err" -> MFail(m, "err")
    [] op = "pop" -> Next1(m, PopN(st, 1))
    [] op = "popn" -> Next1(m, PopN(st, ins.i[1]))
    [] op = "dup" -> Next1(m, Append(st, st[n]))
    [] op = "dup2" -> Next1(m, st \o <<st[n - 1], st[n]>>)
    [] op = "dupn" -> Next1(m, st \o [k \in 1..ins.i[1] |-> st[n]])
    [] op = "swap" -> Next1(m, PopN(st, 2) \o <<st[n], st[n - 1]>>)
    [] op = "dig" -> Next1(m, Append(st, st[n - ins.i[1]]))
    [] op = "bury" ->
         IF ins.i[1] = 0 \/ n - ins.i[1] < 1 THEN MFail(m, "range")
         ELSE Next1(m, PopN([st EXCEPT ![n - ins.i[1]] = st[n]], 1))
    [] op = "cover" ->
         LET d == ins.i[1] IN Next1(m, SubSeq(st, 1, n - d - 1) \o <<st[n]>> \o SubSeq(st, n - d, n - 1))
    [] op = "uncover" ->
         LET d == ins.i[1] IN Next1(m, SubSeq(st, 1, n - d - 1) \o SubSeq(st, n - d + 1, n) \o <<st[n - d]>>)
    [] op = "load" -> Next1(m, Append(st, MapGet(m.sc, ins.i[1], U0)))
    [] op = "store" -> [m EXCEPT !.sc = MapPut(m.sc, ins.i[1], st[n]), !.st = PopN(st, 1), !.pc = m.pc + 1]
    [] op = "loads" ->
         IF ~NeedU(m, 0) THEN MFail(m, "type")
         ELSE IF IntOf(st[n]) < 0 \/ IntOf(st[n]) > 255 THEN MFail(m, "range")
         ELSE Next1(m, Append(PopN(st, 1), MapGet(m.sc, IntOf(st[n]), U0)))
    [] op = "stores" ->
         IF ~NeedU(m, 1) THEN MFail(m, "type")
         ELSE IF IntOf(st[n - 1]) < 0 \/ IntOf(st[n - 1]) > 255 THEN MFail(m, "range")
         ELSE [m EXCEPT !.sc = MapPut(m.sc, IntOf(st[n - 1]), st[n]), !.st = PopN(st, 2), !.pc = m.pc + 1]
    [] op = "b" -> Goto(m, st, ins.t)
    [] op \in {"bz", "bnz"} ->
         IF ~NeedU(m, 0) THEN MFail(m, "type")
         ELSE IF (op = "bnz") = Truthy(st[n]) THEN Goto(m, PopN(st, 1), ins.t) ELSE Next1(m, PopN(st, 1))
    [] op = "assert" ->
         IF ~NeedU(m, 0) THEN MFail(m, "type")
         ELSE IF Truthy(st[n]) THEN Next1(m, PopN(st, 1)) ELSE MFail(m, "assert")
    [] op = "return" ->
         IF ~NeedU(m, 0) THEN MFail(m, "type")
         ELSE [Halt(m, IF Truthy(st[n]) THEN "approve" ELSE "reject", "return")
                 EXCEPT !.exits = Append(m.exits, [k |-> "return", st |-> st])]
    [] op = "callsub" ->
         [m EXCEPT !.pc = ins.t,
                   !.fr = Append(m.fr, [ret |-> m.pc + 1, clear |-> FALSE, height |-> 0, A |-> 0, R |-> 0,
                                        label |-> ins.s, snap |-> st, entry |-> ins.t])]
    [] op = "proto" ->
         IF m.fr = <<>> THEN MFail(m, "callstack")
         ELSE IF CurFr(m).clear THEN MFail(m, "proto-twice")
         ELSE IF ins.i[1] > n THEN MFail(m, "underflow")
         ELSE [m EXCEPT !.fr[Len(m.fr)] = [@ EXCEPT !.clear = TRUE, !.height = n, !.A = ins.i[1], !.R = ins.i[2]],
                        !.pc = m.pc + 1]
    [] op = "frame_dig" ->
         IF m.fr = <<>> THEN MFail(m, "callstack")
         ELSE IF ~CurFr(m).clear THEN MFail(m, "frame-no-proto")
         ELSE LET idx == CurFr(m).height + ins.i[1] IN
              IF ins.i[1] < 0 - CurFr(m).A \/ idx < 0 \/ idx >= n THEN MFail(m, "frame-range")
              ELSE Next1(m, Append(st, st[idx + 1]))
    [] op = "frame_bury" ->
         IF m.fr = <<>> THEN MFail(m, "callstack")
         ELSE IF ~CurFr(m).clear THEN MFail(m, "frame-no-proto")
         ELSE LET idx == CurFr(m).height + ins.i[1] IN
              IF ins.i[1] < 0 - CurFr(m).A \/ idx < 0 \/ idx >= n - 1 THEN MFail(m, "frame-range")
              ELSE Next1(m, PopN([st EXCEPT ![idx + 1] = st[n]], 1))
    [] op = "retsub" ->
         IF m.fr = <<>> THEN MFail(m, "callstack")
         ELSE LET f == CurFr(m)
                  after == IF f.clear
                           THEN SubSeq(st, 1, f.height - f.A) \o SubSeq(st, f.height + 1, f.height + f.R)
                           ELSE st
                  sig == IF f.label \in DOMAIN R THEN R[f.label] ELSE [na |-> 0 - 1, nr |-> 0]
                  base == Len(f.snap) - sig.na
                  g1 == IF sig.na >= 0 /\ Len(after) # base + sig.nr THEN <<"retsub-height:" \o f.label>> ELSE <<>>
                  g2 == IF sig.na >= 0 /\ base >= 0 /\ Len(after) >= base /\ SubSeq(after, 1, base) # SubSeq(f.snap, 1, base)
                        THEN <<"callee-clobbers-caller:" \o f.label>> ELSE <<>>
                  g3 == IF f.clear /\ sig.na >= 0 /\ (f.A # sig.na \/ f.R # sig.nr) THEN <<"proto-mismatch:" \o f.label>> ELSE <<>>
              IN IF f.clear /\ n < f.height + f.R THEN MFail(m, "retsub-underflow")
                 ELSE [m EXCEPT !.st = after, !.pc = f.ret, !.fr = SubSeq(m.fr, 1, Len(m.fr) - 1),
                                !.ghost = m.ghost \o g1 \o g2 \o g3,
                                !.exits = Append(m.exits, [k |-> f.label, st |-> after])]
    [] op = "txn" -> Apply(m, 0, TxnScalar(ctx, ctx.gi, ins.s))
    [] op = "txna" -> Apply(m, 0, TxnArray(ctx, ctx.gi, ins.s, ins.i[1]))
    [] op = "txnas" -> IF ~NeedU(m, 0) THEN MFail(m, "type") ELSE Apply(m, 1, TxnArray(ctx, ctx.gi, ins.s, IntOf(st[n])))
    [] op = "gtxn" -> Apply(m, 0, TxnScalar(ctx, ins.i[1] + 1, ins.s))
    [] op = "gtxna" -> Apply(m, 0, TxnArray(ctx, ins.i[1] + 1, ins.s, ins.i[2]))
    [] op = "gtxnas" -> IF ~NeedU(m, 0) THEN MFail(m, "type") ELSE Apply(m, 1, TxnArray(ctx, ins.i[1] + 1, ins.s, IntOf(st[n])))
    [] op = "gtxns" -> IF ~NeedU(m, 0) THEN MFail(m, "type")
                       ELSE IF IntOf(st[n]) < 0 THEN MFail(m, "range") ELSE Apply(m, 1, TxnScalar(ctx, IntOf(st[n]) + 1, ins.s))
    [] op = "gtxnsa" -> IF ~NeedU(m, 0) THEN MFail(m, "type")
                        ELSE IF IntOf(st[n]) < 0 THEN MFail(m, "range") ELSE Apply(m, 1, TxnArray(ctx, IntOf(st[n]) + 1, ins.s, ins.i[1]))
    [] op = "gtxnsas" -> IF ~NeedU(m, 0) \/ ~NeedU(m, 1) THEN MFail(m, "type")
                         ELSE IF IntOf(st[n - 1]) < 0 THEN MFail(m, "range")
                         ELSE Apply(m, 2, TxnArray(ctx, IntOf(st[n - 1]) + 1, ins.s, IntOf(st[n])))
    [] op = "global" -> Apply(m, 0, Ok1(GlobalRead(ctx, ins.s)))
    [] op \in {"arg", "arg_0", "arg_1", "arg_2", "arg_3"} -> Apply(m, 0, LsigArg(ctx, ins.i[1]))
    [] op = "args" -> IF ~NeedU(m, 0) THEN MFail(m, "type") ELSE Apply(m, 1, LsigArg(ctx, IntOf(st[n])))
    [] op = "log" ->
         IF ~NeedB(m, 0) THEN MFail(m, "type")
         ELSE IF Len(m.logs) >= MaxLogs \/ LogBytes(m.logs) + Len(st[n].v) > MaxLogBytes THEN MFail(m, "log-limit")
         ELSE [m EXCEPT !.logs = Append(m.logs, st[n].v), !.st = PopN(st, 1), !.pc = m.pc + 1]
    \* ---- application state ----
    [] op = "app_global_get" ->
         IF ~NeedB(m, 0) THEN MFail(m, "type") ELSE Next1(m, Append(PopN(st, 1), MapGet(m.gs, st[n].v, U0)))
    [] op = "app_global_get_ex" ->
         IF ~NeedB(m, 0) \/ ~NeedU(m, 1) THEN MFail(m, "type")
         ELSE LET k == st[n].v IN
              Next1(m, PopN(st, 2) \o <<MapGet(m.gs, k, U0), Bool(k \in DOMAIN m.gs)>>)
    [] op = "app_global_put" ->
         IF ~NeedB(m, 1) THEN MFail(m, "type")
         ELSE [m EXCEPT !.gs = MapPut(m.gs, st[n - 1].v, st[n]), !.st = PopN(st, 2), !.pc = m.pc + 1,
                        !.writes = Append(m.writes, <<"gput", st[n - 1].v, st[n]>>)]
    [] op = "app_global_del" ->
         IF ~NeedB(m, 0) THEN MFail(m, "type")
         ELSE [m EXCEPT !.gs = MapDel(m.gs, st[n].v), !.st = PopN(st, 1), !.pc = m.pc + 1,
                        !.writes = Append(m.writes, <<"gdel", st[n].v>>)]
    [] op = "app_local_get" ->
         IF ~NeedB(m, 0) THEN MFail(m, "type")
         ELSE Next1(m, Append(PopN(st, 2), MapGet(m.ls, <<st[n - 1], st[n].v>>, U0)))
    [] op = "app_local_get_ex" ->
         IF ~NeedB(m, 0) \/ ~NeedU(m, 1) THEN MFail(m, "type")
         ELSE LET k == <<st[n - 2], st[n].v>> IN
              Next1(m, PopN(st, 3) \o <<MapGet(m.ls, k, U0), Bool(k \in DOMAIN m.ls)>>)
    [] op = "app_local_put" ->
         IF ~NeedB(m, 1) THEN MFail(m, "type")
         ELSE [m EXCEPT !.ls = MapPut(m.ls, <<st[n - 2], st[n - 1].v>>, st[n]), !.st = PopN(st, 3), !.pc = m.pc + 1,
                        !.writes = Append(m.writes, <<"lput", st[n - 2], st[n - 1].v, st[n]>>)]
    [] op = "app_local_del" ->
         IF ~NeedB(m, 0) THEN MFail(m, "type")
         ELSE [m EXCEPT !.ls = MapDel(m.ls, <<st[n - 1], st[n].v>>), !.st = PopN(st, 2), !.pc = m.pc + 1,
                        !.writes = Append(m.writes, <<"ldel", st[n - 1], st[n].v>>)]
    [] op = "app_opted_in" -> IF ~NeedU(m, 0) THEN MFail(m, "type") ELSE Apply(m, 2, Ok1(Bool(ctx.has = 1)))
    [] op \in {"balance", "min_balance"} -> Apply(m, 1, LedgerUint(ctx, op, TopN(st, 1)))
    [] op \in {"asset_params_get", "app_params_get", "acct_params_get"} -> Apply(m, 1, LedgerGet(ctx, ins.s, TopN(st, 1)))
    [] op = "asset_holding_get" -> Apply(m, 2, LedgerGet(ctx, ins.s, TopN(st, 2)))
    [] op \in {"gload", "gaid"} -> Apply(m, 0, LedgerUint(ctx, op, [k \in 1..Len(ins.i) |-> U(FromInt(ins.i[k]))]))
    [] op \in {"gloads", "gaids"} -> Apply(m, 1, LedgerUint(ctx, op, TopN(st, 1) \o [k \in 1..Len(ins.i) |-> U(FromInt(ins.i[k]))]))
    [] op = "gloadss" -> Apply(m, 2, LedgerUint(ctx, op, TopN(st, 2)))
    \* ---- boxes ----
    [] op = "box_create" ->
         IF ~NeedU(m, 0) \/ ~NeedB(m, 1) THEN MFail(m, "type")
         ELSE IF IntOf(st[n]) < 0 THEN MFail(m, "range")
         ELSE IF st[n - 1].v \in DOMAIN m.bx
              THEN (IF Len(m.bx[st[n - 1].v]) # IntOf(st[n]) THEN MFail(m, "box") ELSE Next1(m, Append(PopN(st, 2), U0)))
              ELSE [m EXCEPT !.bx = MapPut(m.bx, st[n - 1].v, Zeros(IntOf(st[n]))), !.st = Append(PopN(st, 2), U1),
                             !.pc = m.pc + 1, !.writes = Append(m.writes, <<"bcreate", st[n - 1].v, st[n]>>)]
    [] op = "box_put" ->
         IF ~NeedB(m, 0) \/ ~NeedB(m, 1) THEN MFail(m, "type")
         ELSE IF st[n - 1].v \in DOMAIN m.bx /\ Len(m.bx[st[n - 1].v]) # Len(st[n].v) THEN MFail(m, "box")
         ELSE [m EXCEPT !.bx = MapPut(m.bx, st[n - 1].v, st[n].v), !.st = PopN(st, 2), !.pc = m.pc + 1,
                        !.writes = Append(m.writes, <<"bput", st[n - 1].v, st[n].v>>)]
    [] op = "box_get" ->
         IF ~NeedB(m, 0) THEN MFail(m, "type")
         ELSE Next1(m, PopN(st, 1) \o <<B(MapGet(m.bx, st[n].v, <<>>)), Bool(st[n].v \in DOMAIN m.bx)>>)
    [] op = "box_len" ->
         IF ~NeedB(m, 0) THEN MFail(m, "type")
         ELSE Next1(m, PopN(st, 1) \o <<U(FromInt(Len(MapGet(m.bx, st[n].v, <<>>)))), Bool(st[n].v \in DOMAIN m.bx)>>)
    [] op = "box_del" ->
         IF ~NeedB(m, 0) THEN MFail(m, "type")
         ELSE [m EXCEPT !.bx = MapDel(m.bx, st[n].v), !.st = Append(PopN(st, 1), Bool(st[n].v \in DOMAIN m.bx)),
                        !.pc = m.pc + 1, !.writes = Append(m.writes, <<"bdel", st[n].v>>)]
    [] op = "box_extract" ->
         IF ~NeedU(m, 0) \/ ~NeedU(m, 1) \/ ~NeedB(m, 2) THEN MFail(m, "type")
         ELSE IF st[n - 2].v \notin DOMAIN m.bx THEN MFail(m, "box")
         ELSE Apply(m, 3, PureOp("extract3", <<>>, <<B(m.bx[st[n - 2].v]), st[n - 1], st[n]>>))
    [] op = "box_replace" ->
         IF ~NeedB(m, 0) \/ ~NeedU(m, 1) \/ ~NeedB(m, 2) THEN MFail(m, "type")
         ELSE IF st[n - 2].v \notin DOMAIN m.bx THEN MFail(m, "box")
         ELSE LET r == PureOp("replace3", <<>>, <<B(m.bx[st[n - 2].v]), st[n - 1], st[n]>>) IN
              IF ~r.ok THEN MFail(m, r.why)
              ELSE [m EXCEPT !.bx = MapPut(m.bx, st[n - 2].v, r.v[1].v), !.st = PopN(st, 3), !.pc = m.pc + 1,
                             !.writes = Append(m.writes, <<"breplace", st[n - 2].v, st[n - 1], st[n].v>>)]
    [] op \in {"box_splice", "box_resize"} ->
         [m EXCEPT !.st = PopN(st, Arity(ins)), !.pc = m.pc + 1,
                   !.writes = Append(m.writes, <<op>> \o TopN(st, Arity(ins)))]
    \* ---- inner transactions ----
    [] op = "itxn_begin" ->
         IF m.itx # <<>> THEN MFail(m, "itxn-begin-twice") ELSE [m EXCEPT !.itx = <<EmptyItxn>>, !.pc = m.pc + 1]
    [] op = "itxn_next" ->
         IF m.itx = <<>> THEN MFail(m, "itxn-not-begun")
         ELSE IF Len(m.itx) >= 16 THEN MFail(m, "itxn-limit")
         ELSE [m EXCEPT !.itx = Append(m.itx, EmptyItxn), !.pc = m.pc + 1]
    [] op = "itxn_field" ->
         IF m.itx = <<>> THEN MFail(m, "itxn-not-begun")
         ELSE LET f == ins.s
                  cur == m.itx[Len(m.itx)]
                  v == st[n]
              IN IF (f \in ItxnUintFields) # (v.t = "u") THEN MFail(m, "type")
                 ELSE IF f \in ItxnArrayFields
                      THEN LET old == MapGet(cur.a, f, <<>>) IN
                           IF Len(old) >= ItxnArrayLimit(f) THEN MFail(m, "itxn-array-limit")
                           ELSE [m EXCEPT !.itx[Len(m.itx)] = [cur EXCEPT !.a = MapPut(cur.a, f, Append(old, v))],
                                          !.st = PopN(st, 1), !.pc = m.pc + 1]
                      ELSE [m EXCEPT !.itx[Len(m.itx)] = [cur EXCEPT !.f = MapPut(cur.f, f, v)],
                                     !.st = PopN(st, 1), !.pc = m.pc + 1]
    [] op = "itxn_submit" ->
         IF m.itx = <<>> THEN MFail(m, "itxn-not-begun")
         ELSE [m EXCEPT !.sub = Append(m.sub, m.itx), !.itx = <<>>, !.pc = m.pc + 1]
    [] op \in {"itxn", "itxna", "itxnas", "gitxn", "gitxna", "gitxnas"} ->
         \* reads of the last submitted group: the value the program set, else a typed default
         IF m.sub = <<>> THEN MFail(m, "itxn-none")
         ELSE LET grp == m.sub[Len(m.sub)]
                  gix == IF op \in {"gitxn", "gitxna", "gitxnas"} THEN ins.i[1] + 1 ELSE Len(grp)
                  pops == IF op \in {"itxnas", "gitxnas"} THEN 1 ELSE 0
                  aix == IF op = "itxna" THEN ins.i[1] ELSE IF op = "gitxna" THEN ins.i[2]
                         ELSE IF pops = 1 THEN IntOf(st[n]) ELSE 0 - 1
              IN IF gix > Len(grp) THEN MFail(m, "range")
                 ELSE LET t == grp[gix]
                          f == ins.s
                      IN IF aix >= 0
                         THEN (IF f \in DOMAIN t.a /\ aix < Len(t.a[f]) THEN Apply(m, pops, Ok1(t.a[f][aix + 1]))
                               ELSE MFail(m, "range"))
                         ELSE Apply(m, pops, Ok1(IF f \in DOMAIN t.f THEN t.f[f]
                                                  ELSE IF TxnFieldIsBytes(f) THEN B(<<>>) ELSE U0))
    [] OTHER -> MFail(m, "unknown-op:" \o op)

MStep(P, R, ctx, m) ==
  IF m.status # "run" THEN m
  ELSE IF m.steps >= MaxSteps THEN Halt(m, "inconclusive", "budget")
  ELSE IF m.pc > Len(P)
       THEN \* fell off the end: exactly one uint64 must remain
            IF Len(m.st) = 1 /\ m.st[1].t = "u"
            THEN [Halt(m, IF Truthy(m.st[1]) THEN "approve" ELSE "reject", "end")
                    EXCEPT !.exits = Append(m.exits, [k |-> "end", st |-> m.st])]
            ELSE MFail(m, "end-stack")
  ELSE IF Len(m.st) < Arity(P[m.pc]) THEN MFail(m, "underflow")
  ELSE LET r == Exec(P, R, ctx, m) IN
       IF r.status = "run" /\ Len(r.st) > MaxStack THEN MFail(r, "stack-overflow")
       ELSE [r EXCEPT !.steps = m.steps + 1]

RECURSIVE MRun(_, _, _, _, _)
MRun(P, R, ctx, m, k) == IF k = 0 \/ m.status # "run" THEN m ELSE MRun(P, R, ctx, MStep(P, R, ctx, m), k - 1)

\* the observable outcome of a finished run
MOutcome(m) ==
  [class |-> m.status,
   ret |-> IF m.status \in {"approve", "reject"} THEN Peek(m.st).v ELSE <<>>,
   logs |-> IF m.status = "fail" THEN <<>> ELSE m.logs,
   writes |-> IF m.status = "fail" THEN <<>> ELSE m.writes,
   itxns |-> IF m.status = "fail" THEN <<>> ELSE m.sub]
=============================================================================
