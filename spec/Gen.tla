-------------------------------- MODULE Gen ---------------------------------
(***************************************************************************)
(* The public constructor API of PyTeal as a state machine, top-down: a    *)
(* behaviour fills the left-most open position ("hole") of the program     *)
(* under construction with one constructor call at a time, so a behaviour  *)
(* is the pre-order sequence of constructor calls of one program and every *)
(* reachable state is a prefix of a program that can still be completed    *)
(* within the node budget.  TLC enumerates every behaviour (BFS) or walks  *)
(* at random (-simulate); each finished program is printed as a recipe     *)
(* (JSON of the node records of PyTealSem.tla) and replayed by the harness *)
(* into the real library.                                                  *)
(*                                                                         *)
(* A hole is [t, lp, cd]: t the kind of tree wanted -                      *)
(*   "u" / "b"  a value of that TealType,                                  *)
(*   "n"  any statement (TealType.none), "s"  a statement that is not a    *)
(*   definite return (may be followed by more code in a Seq),              *)
(*   "r"  a statement every path of which returns (body of a value routine)*)
(*   "c"  a condition: a uint64 value, loop exits not allowed inside,      *)
(*   "R"  a ScratchVar passed by reference;                                *)
(* lp = number of enclosing loops (Break/Continue need lp > 0),            *)
(* cd = number of enclosing *counted* loops (their counters are readable). *)
(* The productions of a hole are the constructor's documented typing rule, *)
(* so every finished program is well typed by construction.                *)
(***************************************************************************)
EXTENDS DefInit, TLC, Json

CONSTANTS MaxNodes,     \* node budget of one program (routine bodies included; macros count 1)
          Leaves,       \* set of leaf names, see LeafNode
          UnOps, BinOps, NaryOps, TerOps,     \* value-level operator alphabets
          Stmts,        \* statement alphabet
          Ctrl,         \* control alphabet
          NVarsU, NVarsB,   \* number of uint64 / bytes scratch variables (ids 1..NVarsU, NVarsU+1..)
          InitVars,     \* TRUE: main starts by storing an initial value into every global variable and counter
          SigsName,     \* name of the routine-signature catalogue entry, see Sigs
          NLocals,      \* number of uint64 variables private to each routine (ids after the global ones)
          NCtr          \* maximal nesting of counted loops (CWhile / CFor); one counter variable per level

\* Catalogue entries whose name starts with "g" are *guarded*: parameter 1 of every routine is a by-value
\* uint64 counter; the body is wrapped in  If(Not(p1)).Then(Return(base)) ; body  and every call made
\* from inside a routine passes p1 - 1 as first argument, so every recursion (self, mutual, cycle)
\* terminates after at most p1 nested calls.  pk: "v" by value, "r" ScratchVar by reference.
Sigs ==
  CASE SigsName = "none" -> <<>>
    [] SigsName = "u1" -> << [pk |-> <<"v">>, ret |-> "u"] >>
    [] SigsName = "u2" -> << [pk |-> <<"v", "v">>, ret |-> "u"] >>
    [] SigsName = "n1" -> << [pk |-> <<"v">>, ret |-> "n"] >>
    [] SigsName = "u0" -> << [pk |-> <<>>, ret |-> "u"] >>
    [] SigsName = "u1n1" -> << [pk |-> <<"v">>, ret |-> "u"], [pk |-> <<"v">>, ret |-> "n"] >>
    [] SigsName = "u1u2" -> << [pk |-> <<"v">>, ret |-> "u"], [pk |-> <<"v", "v">>, ret |-> "u"] >>
    [] SigsName = "n0u2" -> << [pk |-> <<>>, ret |-> "n"], [pk |-> <<"v", "v">>, ret |-> "u"] >>
    [] SigsName = "g_u1" -> << [pk |-> <<"v">>, ret |-> "u"] >>
    [] SigsName = "g_u2" -> << [pk |-> <<"v", "v">>, ret |-> "u"] >>
    [] SigsName = "g_u3" -> << [pk |-> <<"v", "v", "v">>, ret |-> "u"] >>
    [] SigsName = "g_n1" -> << [pk |-> <<"v">>, ret |-> "n"] >>
    [] SigsName = "g_n2" -> << [pk |-> <<"v", "v">>, ret |-> "n"] >>
    [] SigsName = "g_b1" -> << [pk |-> <<"v">>, ret |-> "b"] >>
    [] SigsName = "g_u1_n1" -> << [pk |-> <<"v">>, ret |-> "u"], [pk |-> <<"v">>, ret |-> "n"] >>
    [] SigsName = "g_n2_u1" -> << [pk |-> <<"v", "v">>, ret |-> "n"], [pk |-> <<"v">>, ret |-> "u"] >>
    [] SigsName = "g_u1_u2" -> << [pk |-> <<"v">>, ret |-> "u"], [pk |-> <<"v", "v">>, ret |-> "u"] >>
    [] SigsName = "g_u2_b1" -> << [pk |-> <<"v", "v">>, ret |-> "u"], [pk |-> <<"v">>, ret |-> "b"] >>
    [] SigsName = "g_u3_n1" -> << [pk |-> <<"v", "v", "v">>, ret |-> "u"], [pk |-> <<"v">>, ret |-> "n"] >>
    [] SigsName = "g_n1_n1_u1" -> << [pk |-> <<"v">>, ret |-> "n"], [pk |-> <<"v">>, ret |-> "n"], [pk |-> <<"v">>, ret |-> "u"] >>
    [] SigsName = "g_nr" -> << [pk |-> <<"v", "r">>, ret |-> "n"] >>
    [] SigsName = "g_ur" -> << [pk |-> <<"v", "r">>, ret |-> "u"] >>
    [] SigsName = "g_nr_u1" -> << [pk |-> <<"v", "r">>, ret |-> "n"], [pk |-> <<"v">>, ret |-> "u"] >>
    [] SigsName = "g_nrv" -> << [pk |-> <<"v", "r", "v">>, ret |-> "n"] >>
    [] SigsName = "g_urv" -> << [pk |-> <<"v", "r", "v">>, ret |-> "u"] >>
    [] SigsName = "g_nr_nr" -> << [pk |-> <<"v", "r">>, ret |-> "n"], [pk |-> <<"v", "r">>, ret |-> "n"] >>
    [] SigsName = "g_nrv_nr" -> << [pk |-> <<"v", "r", "v">>, ret |-> "n"], [pk |-> <<"v", "r">>, ret |-> "n"] >>
Guarded == SigsName \notin {"none", "u1", "u2", "n1", "u0", "u1n1", "u1u2", "n0u2"}
NR == Len(Sigs)

VARIABLES holes,   \* open positions of the routine under construction, left-most first
          toks,    \* constructor calls made so far for it, in pre-order
          used,    \* nodes used so far (all routines)
          rt,      \* finished routine bodies (trees)
          fin
vars == <<holes, toks, used, rt, fin>>

Nd(k, t, n, s, a, i) == [k |-> k, t |-> t, n |-> n, s |-> s, a |-> a, i |-> i, sp |-> 0]
H(t, lp, cd) == [t |-> t, lp |-> lp, cd |-> cd]
\* token: node without its children, number of children still to come, macro tag
Tk(node, ar, x) == [node |-> node, ar |-> ar, x |-> x]
\* production: token + the holes of its children, left to right
P(node, x, kids) == [tok |-> Tk(node, Len(kids), x), kids |-> kids]

CurRoutine == Len(rt) + 1          \* routine being built; NR + 1 = main
InMain == CurRoutine = NR + 1
RetT == IF InMain THEN "u" ELSE Sigs[CurRoutine].ret

IntN(n) == Nd("Int", "u", n, "", <<>>, <<>>)
ArgB(j) == Nd("TxnA", "b", <<>>, "ApplicationArgs", <<>>, <<j>>)
ArgU(j) == Nd("Op", "u", <<>>, "btoi", <<ArgB(j)>>, <<>>)
KeyK == Nd("Bytes", "b", <<107>>, "", <<>>, <<>>)

NGlobalVars == NVarsU + NVarsB
VarT(v) == IF v <= NVarsU \/ v > NGlobalVars THEN "u" ELSE "b"
LocalVarsOf(r) == (NGlobalVars + (r - 1) * NLocals + 1)..(NGlobalVars + r * NLocals)      \* private to routine r
Vars == (1..NGlobalVars) \cup (IF InMain THEN {} ELSE LocalVarsOf(CurRoutine))

\* counted loops: the counter of nesting level d (1 = outermost) is variable CtrVar(d)
CtrVar(d) == NGlobalVars + NR * NLocals + d
CtrLoad(d) == Nd("Load", "u", <<>>, "", <<>>, <<CtrVar(d)>>)
CtrStore(d, e) == Nd("Store", "n", <<>>, "", <<e>>, <<CtrVar(d)>>)
CtrInc(d) == CtrStore(d, Nd("Op", "u", <<>>, "+", <<CtrLoad(d), IntN(<<1>>)>>, <<>>))
CtrZero(d) == CtrStore(d, IntN(<<>>))
LogCtr(d) == Nd("Log", "n", <<>>, "", <<Nd("Op", "b", <<>>, "itob", <<CtrLoad(d)>>, <<>>)>>, <<>>)
CtrIs1(d) == Nd("Op", "u", <<>>, "==", <<CtrLoad(d), IntN(<<1>>)>>, <<>>)

LeafNode(l) ==
  CASE l = "i0" -> IntN(<<>>)
    [] l = "i1" -> IntN(<<1>>)
    [] l = "i2" -> IntN(<<2>>)
    [] l = "i3" -> IntN(<<3>>)
    [] l = "imax" -> IntN(<<255, 255, 255, 255, 255, 255, 255, 255>>)
    [] l = "au0" -> ArgU(0)
    [] l = "au1" -> ArgU(1)
    [] l = "au2" -> ArgU(2)
    [] l = "ab0" -> ArgB(0)
    [] l = "ab1" -> ArgB(1)
    [] l = "ba" -> Nd("Bytes", "b", <<97>>, "", <<>>, <<>>)
    [] l = "bb" -> Nd("Bytes", "b", <<98, 99>>, "", <<>>, <<>>)
    [] l = "be" -> Nd("Bytes", "b", <<>>, "", <<>>, <<>>)
    [] l = "gget" -> Nd("GGet", "a", <<>>, "", <<KeyK>>, <<>>)
    [] l = "lget" -> Nd("LGet", "a", <<>>, "", <<IntN(<<>>), KeyK>>, <<>>)
    [] l = "sender" -> Nd("Txn", "b", <<>>, "Sender", <<>>, <<>>)
    [] l = "oc" -> Nd("Txn", "u", <<>>, "OnCompletion", <<>>, <<>>)
    [] l = "appid" -> Nd("Txn", "u", <<>>, "ApplicationID", <<>>, <<>>)
    [] l = "nargs" -> Nd("Txn", "u", <<>>, "NumAppArgs", <<>>, <<>>)
    [] l = "gsize" -> Nd("Global", "u", <<>>, "GroupSize", <<>>, <<>>)
    [] l = "idx1" -> Nd("Idx", "u", <<>>, "", <<>>, <<1>>)        \* ScratchVar.index() of variable 1 / 2
    [] l = "idx2" -> Nd("Idx", "u", <<>>, "", <<>>, <<2>>)

ResT(op) ==
  IF op \in {"itob", "concat", "substring3", "extract3", "setbyte", "b+", "b-", "b*", "b/", "b%", "b|", "b&",
             "b^", "b~", "bzero", "sha256", "bsqrt", "replace3"} THEN "b" ELSE "u"
ArgT(op) ==      \* operand types, written order
  CASE op \in {"+", "-", "*", "/", "%", "<", ">", "<=", ">=", "&&", "||", "|", "&", "^", "shl", "shr", "exp"} -> <<"u", "u">>
    [] op \in {"!", "~", "itob", "sqrt", "bzero"} -> <<"u">>
    [] op \in {"len", "btoi", "b~", "sha256", "bsqrt"} -> <<"b">>
    [] op \in {"concat", "b+", "b-", "b*", "b/", "b%", "b<", "b>", "b<=", "b>=", "b==", "b!=", "b|", "b&", "b^"} -> <<"b", "b">>
    [] op \in {"getbyte", "extract_uint16", "extract_uint32", "extract_uint64"} -> <<"b", "u">>
    [] op = "setbyte" -> <<"b", "u", "u">>
    [] op = "=="  -> <<"u", "u">>
    [] op = "!="  -> <<"u", "u">>
    [] op = "bitlen" -> <<"u">>
    [] op = "getbit" -> <<"u", "u">>
    [] op = "setbit" -> <<"u", "u", "u">>
    [] op = "divw" -> <<"u", "u", "u">>

\* child hole of value type t inside hole h (conditions keep "no loop exit" by lp = 0)
V(t, h) == H(t, h.lp, h.cd)
HasRefParam == \E r \in 1..NR : \E j \in 1..Len(Sigs[r].pk) : Sigs[r].pk[j] = "r"

\* ---- productions ------------------------------------------------------------------------
ValueProds(h, t) ==       \* h.t in {"u", "b", "c"}; t = the TealType wanted ("c" wants "u")
  {P(LeafNode(l), "", <<>>) : l \in {x \in Leaves : LeafNode(x).t \in {t, "a"}}}
  \cup {P(Nd("Load", t, <<>>, "", <<>>, <<v>>), "", <<>>) : v \in {x \in Vars : VarT(x) = t}}
  \cup (IF t = "u" THEN {P(CtrLoad(d), "", <<>>) : d \in 1..h.cd} ELSE {})
  \cup (IF t = "u" /\ ~InMain
        THEN {P(Nd("PVal", "u", <<>>, "", <<>>, <<j>>), "", <<>>) : j \in {x \in 1..Len(Sigs[CurRoutine].pk) : Sigs[CurRoutine].pk[x] = "v"}}
             \cup {P(Nd("PLoad", "u", <<>>, "", <<>>, <<j>>), "", <<>>) : j \in {x \in 1..Len(Sigs[CurRoutine].pk) : Sigs[CurRoutine].pk[x] = "r"}}
        ELSE {})
  \cup {P(Nd("Op", t, <<>>, op, <<>>, <<>>), "", <<V(ArgT(op)[1], h)>>) : op \in {x \in UnOps : ResT(x) = t}}
  \cup {P(Nd("Op", t, <<>>, op, <<>>, <<>>), "", <<V(ArgT(op)[1], h), V(ArgT(op)[2], h)>>) : op \in {x \in BinOps : ResT(x) = t}}
  \cup {P(Nd("Op", t, <<>>, op, <<>>, <<>>), "", <<V(ArgT(op)[1], h), V(ArgT(op)[2], h), V(ArgT(op)[3], h)>>) :
          op \in {x \in TerOps \ {"Substring", "Extract", "Suffix"} : ResT(x) = t}}
  \cup {P(Nd("Nary", t, <<>>, op, <<>>, <<>>), "", <<V(ArgT(op)[1], h), V(ArgT(op)[1], h), V(ArgT(op)[1], h)>>) :
          op \in {x \in NaryOps : ResT(x) = t}}
  \cup (IF t = "b" THEN {P(Nd(k, "b", <<>>, "", <<>>, <<>>), "", <<V("b", h), V("u", h), V("u", h)>>) : k \in TerOps \cap {"Substring", "Extract"}}
                        \cup {P(Nd("Suffix", "b", <<>>, "", <<>>, <<>>), "", <<V("b", h), V("u", h)>>) : k \in TerOps \cap {"Suffix"}}
        ELSE {})
  \cup (IF "VSeq" \in Ctrl THEN {P(Nd("Seq", t, <<>>, "", <<>>, <<>>), "", <<H("s", h.lp, h.cd), V(t, h)>>)} ELSE {})
  \cup (IF "VIf" \in Ctrl THEN {P(Nd("If", t, <<>>, "", <<>>, <<>>), "", <<H("c", 0, h.cd), V(t, h), V(t, h)>>)} ELSE {})
  \cup {P(Nd("Call", t, <<>>, "", <<>>, <<r>>), "Call", <<>>) : r \in {x \in 1..NR : Sigs[x].ret = t}}

\* statements that are not definite returns ("s"), usable anywhere a statement is wanted
StmtProds(h) ==
  LET lp == h.lp
      cd == h.cd
      S == H("s", lp, cd)
      Nn == H("n", lp, cd)
      C == H("c", 0, cd)
      U == H("u", lp, cd)
      B == H("b", lp, cd)
  IN
  (IF "Pop" \in Stmts THEN {P(Nd("Pop", "n", <<>>, "", <<>>, <<>>), "", <<U>>)} ELSE {})
  \cup (IF "PopB" \in Stmts THEN {P(Nd("Pop", "n", <<>>, "", <<>>, <<>>), "", <<B>>)} ELSE {})
  \cup (IF "Nop" \in Stmts THEN {P(Nd("Pop", "n", <<>>, "", <<IntN(<<1>>)>>, <<>>), "", <<>>)} ELSE {})
  \cup (IF "Store" \in Stmts THEN {P(Nd("Store", "n", <<>>, "", <<>>, <<v>>), "", <<H(VarT(v), lp, cd)>>) : v \in Vars} ELSE {})
  \cup (IF "Store" \in Stmts /\ ~InMain
        THEN {P(Nd("PStore", "n", <<>>, "", <<>>, <<j>>), "", <<U>>) : j \in {x \in 1..Len(Sigs[CurRoutine].pk) : Sigs[CurRoutine].pk[x] = "r"}}
        ELSE {})
  \cup (IF "Log" \in Stmts THEN {P(Nd("Log", "n", <<>>, "", <<>>, <<>>), "", <<B>>)} ELSE {})
  \cup (IF "LogU" \in Stmts THEN {P(Nd("Log", "n", <<>>, "", <<>>, <<>>), "LogU", <<U>>)} ELSE {})
  \cup (IF "GPut" \in Stmts THEN {P(Nd("GPut", "n", <<>>, "", <<>>, <<>>), "GPut", <<U>>)} ELSE {})
  \cup (IF "GPutB" \in Stmts THEN {P(Nd("GPut", "n", <<>>, "", <<>>, <<>>), "GPut", <<B>>)} ELSE {})
  \cup (IF "GDel" \in Stmts THEN {P(Nd("GDel", "n", <<>>, "", <<KeyK>>, <<>>), "", <<>>)} ELSE {})
  \cup (IF "LPut" \in Stmts THEN {P(Nd("LPut", "n", <<>>, "", <<>>, <<>>), "LPut", <<U>>)} ELSE {})
  \cup (IF "LDel" \in Stmts THEN {P(Nd("LDel", "n", <<>>, "", <<IntN(<<>>), KeyK>>, <<>>), "", <<>>)} ELSE {})
  \* a MaybeValue evaluated once, its two results read in either order (both logged)
  \cup (IF "MVMacros" \in Stmts
        THEN LET mv == Nd("MV", "n", <<>>, "GGetEx", <<IntN(<<>>), KeyK>>, <<1>>)
                 has == Nd("Log", "n", <<>>, "", <<Nd("Op", "b", <<>>, "itob", <<Nd("MVHas", "u", <<>>, "", <<>>, <<1>>)>>, <<>>)>>, <<>>)
                 val == Nd("Pop", "n", <<>>, "", <<Nd("MVVal", "a", <<>>, "", <<>>, <<1>>)>>, <<>>)
             IN {P(Nd("Seq", "n", <<>>, "", <<mv, has, val>>, <<>>), "", <<>>), P(Nd("Seq", "n", <<>>, "", <<mv, val, has>>, <<>>), "", <<>>)}
        ELSE {})
  \cup (IF "Assert" \in Stmts THEN {P(Nd("Assert", "n", <<>>, "", <<>>, <<>>), "", <<U>>)} ELSE {})
  \cup (IF "Assert2" \in Stmts THEN {P(Nd("Assert", "n", <<>>, "", <<>>, <<>>), "", <<U, U>>)} ELSE {})
  \* optimiser-shaped one-node statements on a uint64 variable v:
  \*   SL: store immediately followed by the only nearby load   v := arg0 ; Log(Itob(v))
  \*   Use: a load that is not adjacent to any store             Log(Itob(9 - v))
  \*   Set: a plain store                                        v := 1
  \cup (IF "OptMacros" \in Stmts
        THEN {P(Nd("Seq", "n", <<>>, "", <<Nd("Store", "n", <<>>, "", <<ArgU(0)>>, <<v>>),
                                         Nd("Log", "n", <<>>, "", <<Nd("Op", "b", <<>>, "itob", <<Nd("Load", "u", <<>>, "", <<>>, <<v>>)>>, <<>>)>>, <<>>)>>, <<>>),
                "", <<>>) : v \in {x \in Vars : VarT(x) = "u"}}
             \cup {P(Nd("Log", "n", <<>>, "", <<Nd("Op", "b", <<>>, "itob",
                        <<Nd("Op", "u", <<>>, "-", <<IntN(<<9>>), Nd("Load", "u", <<>>, "", <<>>, <<v>>)>>, <<>>)>>, <<>>)>>, <<>>),
                     "", <<>>) : v \in {x \in Vars : VarT(x) = "u"}}
             \cup {P(Nd("Store", "n", <<>>, "", <<IntN(<<1>>)>>, <<v>>), "", <<>>) : v \in {x \in Vars : VarT(x) = "u"}}
        ELSE {})
  \* a by-reference call inside a branch, right after a store to the variable whose only direct load is the branch condition:
  \*   v := arg0 ; If(v).Then( f(2, ref v) )          (f: any catalogue routine with signature (value, reference))
  \cup (IF "RefMacros" \in Stmts /\ InMain
        THEN {LET call == Nd("Call", Sigs[r].ret, <<>>, "", <<IntN(<<2>>), Nd("Ref", "r", <<>>, "", <<>>, <<v>>)>>, <<r>>)
                  stmt == IF Sigs[r].ret = "n" THEN call ELSE Nd("Pop", "n", <<>>, "", <<call>>, <<>>)
              IN P(Nd("Seq", "n", <<>>, "", <<Nd("Store", "n", <<>>, "", <<ArgU(0)>>, <<v>>),
                                              Nd("If", "n", <<>>, "", <<Nd("Load", "u", <<>>, "", <<>>, <<v>>), stmt>>, <<>>)>>, <<>>), "", <<>>)
              : r \in {x \in 1..NR : Sigs[x].pk = <<"v", "r">>}, v \in {x \in Vars : VarT(x) = "u"}}
        ELSE {})
  \cup {P(LogCtr(d), "", <<>>) : d \in {x \in 1..cd : "LogC" \in Stmts}}
  \cup {P(Nd("If", "n", <<>>, "", <<CtrIs1(d), Nd("Continue", "n", <<>>, "", <<>>, <<>>)>>, <<>>), "", <<>>) :
          d \in {x \in 1..cd : "ContIf" \in Stmts /\ lp > 0}}
  \cup {P(Nd("If", "n", <<>>, "", <<CtrIs1(d), Nd("Break", "n", <<>>, "", <<>>, <<>>)>>, <<>>), "", <<>>) :
          d \in {x \in 1..cd : "BrkIf" \in Stmts /\ lp > 0}}
  \cup (IF "Seq2" \in Ctrl THEN {P(Nd("Seq", "n", <<>>, "", <<>>, <<>>), "", <<S, S>>)} ELSE {})
  \cup (IF "Seq3" \in Ctrl THEN {P(Nd("Seq", "n", <<>>, "", <<>>, <<>>), "", <<S, S, S>>)} ELSE {})
  \cup (IF "EmptySeq" \in Ctrl THEN {P(Nd("Seq", "n", <<>>, "", <<>>, <<>>), "", <<>>)} ELSE {})
  \cup (IF "If2" \in Ctrl THEN {P(Nd("If", "n", <<>>, "", <<>>, <<>>), "", <<C, Nn>>)} ELSE {})
  \cup (IF "If3" \in Ctrl THEN {P(Nd("If", "n", <<>>, "", <<>>, <<>>), "", <<C, S, S>>)} ELSE {})
  \* one arm returns on every path, the other does not (If(c).Then(Return..).ElseIf(d).Then(Return..) without Else is an instance)
  \cup (IF "If3" \in Ctrl /\ "IfMixed" \in Ctrl
        THEN {P(Nd("If", "n", <<>>, "", <<>>, <<>>), "", <<C, H("r", lp, cd), S>>), P(Nd("If", "n", <<>>, "", <<>>, <<>>), "", <<C, S, H("r", lp, cd)>>)} ELSE {})
  \cup (IF "Cond2" \in Ctrl THEN {P(Nd("Cond", "n", <<>>, "", <<>>, <<>>), "", <<C, S, C, S>>)} ELSE {})
  \cup (IF "While" \in Ctrl THEN {P(Nd("While", "n", <<>>, "", <<>>, <<>>), "", <<C, H("n", lp + 1, cd)>>)} ELSE {})
  \cup (IF "For" \in Ctrl THEN {P(Nd("For", "n", <<>>, "", <<>>, <<>>), "", <<H("s", 0, cd), C, H("s", 0, cd), H("n", lp + 1, cd)>>)} ELSE {})
  \* counted loops terminate by construction, whatever Break/Continue the body contains:
  \*   CWhile:  c := 0 ; While(c < arg0).Do( c := c + 1 ; body )        CFor:  For(c := 0, c < 3, c := c + 1).Do(body)
  \cup (IF "CWhile" \in Ctrl /\ cd < NCtr THEN {P(Nd("Seq", "n", <<>>, "", <<>>, <<cd + 1>>), "CWhile", <<H("n", lp + 1, cd + 1)>>)} ELSE {})
  \cup (IF "CFor" \in Ctrl /\ cd < NCtr THEN {P(Nd("For", "n", <<>>, "", <<>>, <<cd + 1>>), "CFor", <<H("n", lp + 1, cd + 1)>>)} ELSE {})
  \cup (IF "Break" \in Ctrl /\ lp > 0 THEN {P(Nd("Break", "n", <<>>, "", <<>>, <<>>), "", <<>>)} ELSE {})
  \cup (IF "Continue" \in Ctrl /\ lp > 0 THEN {P(Nd("Continue", "n", <<>>, "", <<>>, <<>>), "", <<>>)} ELSE {})
  \cup {P(Nd("Call", "n", <<>>, "", <<>>, <<r>>), "Call", <<>>) : r \in {x \in 1..NR : Sigs[x].ret = "n"}}

\* statements every path of which leaves the routine / program
RetProds(h) ==
  LET R == H("r", h.lp, h.cd)
      S == H("s", h.lp, h.cd)
      C == H("c", 0, h.cd)
  IN
  (IF "Return" \in Stmts /\ RetT # "n" THEN {P(Nd("Return", "n", <<>>, "", <<>>, <<>>), "", <<H(RetT, h.lp, h.cd)>>)} ELSE {})
  \cup (IF "Return" \in Stmts /\ RetT = "n" THEN {P(Nd("Return", "n", <<>>, "", <<>>, <<>>), "", <<>>)} ELSE {})
  \cup {P(Nd(k, "n", <<>>, "", <<>>, <<>>), "", <<>>) : k \in Stmts \cap {"Approve", "Reject", "Err"}}
  \cup (IF "Seq2" \in Ctrl THEN {P(Nd("Seq", "n", <<>>, "", <<>>, <<>>), "", <<S, R>>)} ELSE {})
  \cup (IF "If3" \in Ctrl THEN {P(Nd("If", "n", <<>>, "", <<>>, <<>>), "", <<C, R, R>>)} ELSE {})
  \cup (IF "Cond2" \in Ctrl THEN {P(Nd("Cond", "n", <<>>, "", <<>>, <<>>), "", <<C, R, C, R>>)} ELSE {})

RefProds(h) ==
  {P(Nd("Ref", "r", <<>>, "", <<>>, <<v>>), "", <<>>) : v \in {x \in Vars : VarT(x) = "u"}}
  \cup (IF InMain THEN {}
        ELSE {P(Nd("PRef", "r", <<>>, "", <<>>, <<j>>), "", <<>>) : j \in {x \in 1..Len(Sigs[CurRoutine].pk) : Sigs[CurRoutine].pk[x] = "r"}})

\* argument holes of a call of routine r made from the current routine
CallKids(r, h) ==
  LET pk == Sigs[r].pk
      auto == IF Guarded /\ ~InMain THEN 1 ELSE 0
  IN [j \in 1..(Len(pk) - auto) |-> IF pk[j + auto] = "v" THEN V("u", h) ELSE H("R", h.lp, h.cd)]

Prods(h) ==
  LET raw == CASE h.t \in {"u", "b"} -> ValueProds(h, h.t)
               [] h.t = "c" -> ValueProds(h, "u")
               [] h.t = "s" -> StmtProds(h)
               [] h.t = "r" -> RetProds(h)
               [] h.t = "n" -> StmtProds(h) \cup RetProds(h)
               [] h.t = "R" -> RefProds(h)
               [] h.t = "body" ->       \* body of a routine / of main
                    IF RetT = "n" THEN StmtProds(H("n", 0, 0)) \cup RetProds(H("n", 0, 0))
                    ELSE ValueProds(H(RetT, 0, 0), RetT) \cup RetProds(H("r", 0, 0))
  IN {IF p.tok.x = "Call" THEN [tok |-> Tk(p.tok.node, Len(CallKids(p.tok.node.i[1], h)), "Call"), kids |-> CallKids(p.tok.node.i[1], h)]
      ELSE p : p \in raw}

\* ---- tokens -> tree ----------------------------------------------------------------------
DecP1 == Nd("Op", "u", <<>>, "-", <<Nd("PVal", "u", <<>>, "", <<>>, <<1>>), IntN(<<1>>)>>, <<>>)
Mk(tk, kids, inMain) ==
  LET nd == tk.node IN
  CASE tk.x = "CWhile" ->
         LET d == nd.i[1] IN
         Nd("Seq", "n", <<>>, "", <<CtrZero(d), Nd("While", "n", <<>>, "",
              <<Nd("Op", "u", <<>>, "<", <<CtrLoad(d), ArgU(0)>>, <<>>), Nd("Seq", "n", <<>>, "", <<CtrInc(d), kids[1]>>, <<>>)>>, <<>>)>>, <<d>>)
    [] tk.x = "CFor" ->
         LET d == nd.i[1] IN
         Nd("For", "n", <<>>, "", <<CtrZero(d), Nd("Op", "u", <<>>, "<", <<CtrLoad(d), IntN(<<3>>)>>, <<>>), CtrInc(d), kids[1]>>, <<d>>)
    [] tk.x = "GPut" -> [nd EXCEPT !.a = <<KeyK, kids[1]>>]
    [] tk.x = "LPut" -> [nd EXCEPT !.a = <<IntN(<<>>), KeyK, kids[1]>>]
    [] tk.x = "LogU" -> [nd EXCEPT !.a = <<Nd("Op", "b", <<>>, "itob", <<kids[1]>>, <<>>)>>]
    [] tk.x = "Call" -> [nd EXCEPT !.a = IF Guarded /\ ~inMain THEN <<DecP1>> \o kids ELSE kids]
    [] OTHER -> IF tk.ar = 0 THEN nd ELSE [nd EXCEPT !.a = kids]

RECURSIVE Parse(_, _, _), ParseKids(_, _, _, _, _)
ParseKids(ts, p, n, acc, inMain) ==
  IF n = 0 THEN [kids |-> acc, next |-> p]
  ELSE LET r == Parse(ts, p, inMain) IN ParseKids(ts, r.next, n - 1, Append(acc, r.node), inMain)
Parse(ts, p, inMain) ==
  LET ks == ParseKids(ts, p + 1, ts[p].ar, <<>>, inMain) IN [node |-> Mk(ts[p], ks.kids, inMain), next |-> ks.next]

BaseValue(t) == IF t = "u" THEN <<IntN(<<7>>)>> ELSE IF t = "b" THEN <<Nd("Bytes", "b", <<122>>, "", <<>>, <<>>)>> ELSE <<>>
GuardWrap(body, ret) ==
  IF ~Guarded THEN body
  ELSE Nd("Seq", body.t, <<>>, "",
          <<Nd("If", "n", <<>>, "", <<Nd("Op", "u", <<>>, "!", <<Nd("PVal", "u", <<>>, "", <<>>, <<1>>)>>, <<>>),
                                      Nd("Return", "n", <<>>, "", BaseValue(ret), <<>>)>>, <<>>),
            body>>, <<>>)

\* ---- actions -----------------------------------------------------------------------------
\* every open hole still needs at least one node
Fill == /\ ~fin /\ holes # <<>>
        /\ \E p \in Prods(Head(holes)) :
             /\ used + 1 + Len(p.kids) + Len(holes) - 1 <= MaxNodes - (IF InMain THEN 0 ELSE NR + 1 - CurRoutine)
             /\ holes' = p.kids \o Tail(holes)
             /\ toks' = Append(toks, p.tok)
             /\ used' = used + 1
        /\ UNCHANGED <<rt, fin>>

CloseRoutine ==
  /\ ~fin /\ ~InMain /\ holes = <<>> /\ toks # <<>>
  /\ rt' = Append(rt, [pk |-> Sigs[CurRoutine].pk, ret |-> Sigs[CurRoutine].ret,
                       body |-> GuardWrap(Parse(toks, 1, FALSE).node, Sigs[CurRoutine].ret)])
  /\ holes' = <<H("body", 0, 0)>> /\ toks' = <<>> /\ UNCHANGED <<used, fin>>

InitStores == [v \in 1..NGlobalVars |->
                 Nd("Store", "n", <<>>, "", <<IF VarT(v) = "u" THEN IntN(<<>>) ELSE Nd("Bytes", "b", <<>>, "", <<>>, <<>>)>>, <<v>>)]
              \o [d \in 1..NCtr |-> CtrZero(d)]

SetToSeq(S) == LET RECURSIVE F(_) F(T) == IF T = {} THEN <<>> ELSE LET x == CHOOSE y \in T : \A z \in T : y <= z IN <<x>> \o F(T \ {x})
               IN F(S)

Finish ==
  /\ ~fin /\ InMain /\ holes = <<>> /\ toks # <<>>
  /\ fin' = TRUE /\ UNCHANGED <<holes, toks, used, rt>>
  /\ LET body == Parse(toks, 1, TRUE).node
         main == IF InitVars /\ NGlobalVars + NCtr > 0 THEN Nd("Seq", body.t, <<>>, "", InitStores \o <<body>>, <<>>) ELSE body
         p0 == [main |-> main, rt |-> rt]
         reach == Routines(p0)
     IN PrintT("R|" \o ToJson([main |-> main,
                               rt |-> [j \in 1..Len(rt) |->
                                         [pk |-> rt[j].pk, ret |-> rt[j].ret, body |-> rt[j].body,
                                          \* variables private to this routine are per activation (PyTealSem.tla)
                                          locals |-> IF j \in reach THEN SetToSeq(LocalsOf(p0, j)) ELSE <<>>]],
                               nvars |-> NGlobalVars + NR * NLocals + NCtr,
                               sz |-> used]))

Init == holes = <<H("body", 0, 0)>> /\ toks = <<>> /\ used = 0 /\ rt = <<>> /\ fin = FALSE

Next == Fill \/ CloseRoutine \/ Finish
Spec == Init /\ [][Next]_vars
=============================================================================
