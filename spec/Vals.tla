-------------------------------- MODULE Vals --------------------------------
(***************************************************************************)
(* Values of the AVM and of the PyTeal source language, and the meaning of *)
(* every *pure* operator on them (arithmetic, comparison, logic, byte      *)
(* strings, wide arithmetic, byte-math).  Both AVM.tla (target machine)    *)
(* and PyTealSem.tla (source language) instantiate this module; nothing    *)
(* about control flow, stack, slots or calling convention lives here.      *)
(* A value is [t |-> "u", v |-> nat] or [t |-> "b", v |-> Seq(0..Base-1)]. *)
(* An operator result is [ok |-> TRUE, v |-> <<values pushed>>] or         *)
(* [ok |-> FALSE, why |-> reason, v |-> <<>>].                             *)
(***************************************************************************)
EXTENDS BigNat

U(n) == [t |-> "u", v |-> n]
B(s) == [t |-> "b", v |-> s]
U0 == U(Zero)
U1 == U(One)
Bool(b) == IF b THEN U1 ELSE U0
IsU(x) == x.t = "u"
IsB(x) == x.t = "b"
Truthy(x) == x.v # <<>>          \* for uint64 values

Ok(vs) == [ok |-> TRUE, why |-> "", v |-> vs]
Ok1(x) == [ok |-> TRUE, why |-> "", v |-> <<x>>]
Fail(r) == [ok |-> FALSE, why |-> r, v |-> <<>>]

MaxBytes == IF Base = 256 THEN 4096 ELSE 64      \* byte-string length limit
MaxBMath == IF Base = 256 THEN 64 ELSE 8          \* operand limit of the b* family

\* ---- byte-string helpers -------------------------------------------------
Take(s, n) == SubSeq(s, 1, n)
Drop(s, n) == SubSeq(s, n + 1, Len(s))
Slice(s, from, to) == SubSeq(s, from + 1, to)        \* bytes [from, to)

\* small integer of a uint value or -1 when it does not fit 2^24
IntOf(x) == IF Small(x.v) THEN ToInt(x.v) ELSE 0 - 1

\* uninterpreted functions (hashes, signatures, codecs): deterministic tokens.
\* Both semantics use the same token, so only argument values/order are observable.
TagCode(op) ==
  CASE op = "sha256" -> 1 [] op = "keccak256" -> 2 [] op = "sha512_256" -> 3 [] op = "sha3_256" -> 4
    [] op = "base64_decode" -> 5 [] op = "json_ref" -> 6 [] op = "mimc" -> 7
    [] op = "ecdsa_pk_decompress" -> 8 [] op = "ecdsa_pk_recover" -> 9 [] op = "vrf_verify" -> 10
    [] op = "ec_add" -> 11 [] op = "ec_scalar_mul" -> 12 [] op = "ec_multi_scalar_mul" -> 13
    [] op = "ec_map_to" -> 14 [] op = "block" -> 15
    [] OTHER -> 99
RECURSIVE FlatArgs(_, _)
FlatArgs(a, i) == IF i > Len(a) THEN <<>> ELSE <<Len(a[i].v)>> \o a[i].v \o FlatArgs(a, i + 1)
Token(op, imm, a, n) ==
  LET raw == <<256 + TagCode(op)>> \o imm \o FlatArgs(a, 1)
  IN IF Len(raw) >= n THEN Take(raw, n) ELSE raw \o Zeros(n - Len(raw))
\* an uninterpreted predicate: parity of the total argument length (deterministic)
RECURSIVE SumLen(_, _)
SumLen(a, i) == IF i > Len(a) THEN 0 ELSE Len(a[i].v) + SumLen(a, i + 1)
Pred(op, a) == Bool((SumLen(a, 1) + TagCode(op)) % 2 = 0)

\* string immediates of pure operators -> small codes (distinct per spelling)
SImm(s) ==
  CASE s = "" -> <<>>
    [] s = "JSONString" -> <<0>> [] s = "JSONUint64" -> <<1>> [] s = "JSONObject" -> <<2>>
    [] s = "BlkSeed" -> <<0>> [] s = "BlkTimestamp" -> <<1>>
    [] s = "URLEncoding" -> <<0>> [] s = "StdEncoding" -> <<1>>
    [] s = "Secp256k1" -> <<0>> [] s = "Secp256r1" -> <<1>>
    [] s = "VrfAlgorand" -> <<0>>
    [] s = "BN254g1" -> <<0>> [] s = "BN254g2" -> <<1>> [] s = "BLS12_381g1" -> <<2>> [] s = "BLS12_381g2" -> <<3>>
    [] s = "BN254Mp110" -> <<0>> [] s = "BLS12_381Mp111" -> <<1>>
    [] OTHER -> <<9>>

\* ---- operator tables ------------------------------------------------------
\* argument type signature of pure operators: string over {u, b, a}(a = any), deepest first
Sig(op) ==
  CASE op \in {"+", "-", "/", "*", "<", ">", "<=", ">=", "&&", "||", "%", "|", "&", "^",
               "mulw", "addw", "shl", "shr", "exp", "expw"} -> <<"u", "u">>
    [] op \in {"!", "~", "itob", "sqrt", "bzero"} -> <<"u">>
    [] op \in {"==", "!="} -> <<"a", "a">>
    [] op \in {"len", "btoi", "b~", "bsqrt", "sha256", "keccak256", "sha512_256", "sha3_256"} -> <<"b">>
    [] op = "bitlen" -> <<"a">>
    [] op \in {"concat", "b+", "b-", "b/", "b*", "b<", "b>", "b<=", "b>=", "b==", "b!=", "b%",
               "b|", "b&", "b^"} -> <<"b", "b">>
    [] op = "substring" -> <<"b">>
    [] op = "substring3" -> <<"b", "u", "u">>
    [] op = "extract" -> <<"b">>
    [] op = "extract3" -> <<"b", "u", "u">>
    [] op \in {"extract_uint16", "extract_uint32", "extract_uint64", "getbyte"} -> <<"b", "u">>
    [] op = "getbit" -> <<"a", "u">>
    [] op = "setbit" -> <<"a", "u", "u">>
    [] op = "setbyte" -> <<"b", "u", "u">>
    [] op = "divmodw" -> <<"u", "u", "u", "u">>
    [] op = "divw" -> <<"u", "u", "u">>
    [] op = "select" -> <<"a", "a", "u">>
    [] op = "replace2" -> <<"b", "b">>
    [] op = "replace3" -> <<"b", "u", "b">>
    [] op \in {"ed25519verify", "ed25519verify_bare"} -> <<"b", "b", "b">>
    [] op = "ecdsa_verify" -> <<"b", "b", "b", "b", "b">>
    [] op = "ecdsa_pk_decompress" -> <<"b">>
    [] op = "ecdsa_pk_recover" -> <<"b", "u", "b", "b">>
    [] op = "vrf_verify" -> <<"b", "b", "b">>
    [] op = "base64_decode" -> <<"b">>
    [] op = "json_ref" -> <<"b", "b">>
    [] op \in {"ec_add", "ec_scalar_mul", "ec_multi_scalar_mul", "ec_pairing_check"} -> <<"b", "b">>
    [] op \in {"ec_subgroup_check", "ec_map_to"} -> <<"b">>
    [] op = "mimc" -> <<"b">>
    [] op = "block" -> <<"u">>

PureOps == {"+", "-", "/", "*", "<", ">", "<=", ">=", "&&", "||", "%", "|", "&", "^", "mulw", "addw",
            "shl", "shr", "exp", "expw", "!", "~", "itob", "sqrt", "bzero", "==", "!=", "len", "btoi",
            "b~", "bsqrt", "sha256", "keccak256", "sha512_256", "sha3_256", "bitlen", "concat",
            "b+", "b-", "b/", "b*", "b<", "b>", "b<=", "b>=", "b==", "b!=", "b%", "b|", "b&", "b^",
            "substring", "substring3", "extract", "extract3", "extract_uint16", "extract_uint32",
            "extract_uint64", "getbyte", "getbit", "setbit", "setbyte", "divmodw", "divw", "select",
            "replace2", "replace3", "ed25519verify", "ed25519verify_bare", "ecdsa_verify",
            "ecdsa_pk_decompress", "ecdsa_pk_recover", "vrf_verify", "base64_decode", "json_ref",
            "ec_add", "ec_scalar_mul", "ec_multi_scalar_mul", "ec_pairing_check", "ec_subgroup_check",
            "ec_map_to", "mimc", "block"}

TypeOk(sig, a) == \A k \in 1..Len(sig) : sig[k] = "a" \/ sig[k] = a[k].t

\* ---- bits ------------------------------------------------------------------
\* bit k (0 = most significant of the digit) of a digit
DigitBitMS(d, k) == (d \div (2 ^ (BitsPerDigit - 1 - k))) % 2
SetDigitBitMS(d, k, bit) ==
  LET w == 2 ^ (BitsPerDigit - 1 - k) IN IF bit = 1 THEN d | w ELSE d - (d & w)

ExtractUint(s, start, n) ==        \* n digits from offset start, as a uint
  IF start < 0 \/ start + n > Len(s) THEN Fail("range")
  ELSE Ok1(U(Norm(Slice(s, start, start + n))))

BMathOk(a) == Len(a[1].v) <= MaxBMath /\ Len(a[2].v) <= MaxBMath

PadTo(s, n) == IF Len(s) >= n THEN s ELSE Zeros(n - Len(s)) \o s

\* ---- the operators ---------------------------------------------------------
\* op: opcode spelling, imm: immediates (small ints), a: argument values, deepest first
PureOp(op, imm, a) ==
  IF ~TypeOk(Sig(op), a) THEN Fail("type") ELSE
  LET x == a[1].v
      y == IF Len(a) >= 2 THEN a[2].v ELSE <<>>
      z == IF Len(a) >= 3 THEN a[3].v ELSE <<>>
  IN
  CASE op = "+" -> LET r == Add(x, y) IN IF FitsWord(r) THEN Ok1(U(r)) ELSE Fail("arith")
    [] op = "-" -> IF Lt(x, y) THEN Fail("arith") ELSE Ok1(U(Sub(x, y)))
    [] op = "*" -> LET r == Mul(x, y) IN IF FitsWord(r) THEN Ok1(U(r)) ELSE Fail("arith")
    [] op = "/" -> IF y = <<>> THEN Fail("arith") ELSE Ok1(U(Div(x, y)))
    [] op = "%" -> IF y = <<>> THEN Fail("arith") ELSE Ok1(U(Mod(x, y)))
    [] op = "<" -> Ok1(Bool(Lt(x, y)))
    [] op = ">" -> Ok1(Bool(Lt(y, x)))
    [] op = "<=" -> Ok1(Bool(Le(x, y)))
    [] op = ">=" -> Ok1(Bool(Le(y, x)))
    [] op = "&&" -> Ok1(Bool(x # <<>> /\ y # <<>>))
    [] op = "||" -> Ok1(Bool(x # <<>> \/ y # <<>>))
    [] op = "==" -> IF a[1].t # a[2].t THEN Fail("type") ELSE Ok1(Bool(x = y))
    [] op = "!=" -> IF a[1].t # a[2].t THEN Fail("type") ELSE Ok1(Bool(x # y))
    [] op = "!" -> Ok1(Bool(x = <<>>))
    [] op = "~" -> Ok1(U(WNot(x)))
    [] op = "|" -> Ok1(U(WOr(x, y)))
    [] op = "&" -> Ok1(U(WAnd(x, y)))
    [] op = "^" -> Ok1(U(WXor(x, y)))
    [] op = "len" -> Ok1(U(FromInt(Len(x))))
    [] op = "itob" -> Ok1(B(Pad(x, WD)))
    [] op = "btoi" -> IF Len(x) > WD THEN Fail("range") ELSE Ok1(U(Norm(x)))
    [] op = "mulw" -> LET r == Mul(x, y) IN Ok(<<U(HiWord(r)), U(LoWord(r))>>)
    [] op = "addw" -> LET r == Add(x, y) IN Ok(<<U(HiWord(r)), U(LoWord(r))>>)
    [] op = "shl" -> IF IntOf(a[2]) < 0 \/ IntOf(a[2]) >= WordBits THEN Fail("arith")
                     ELSE Ok1(U(Shl(x, IntOf(a[2]))))
    [] op = "shr" -> IF IntOf(a[2]) < 0 \/ IntOf(a[2]) >= WordBits THEN Fail("arith")
                     ELSE Ok1(U(Shr(x, IntOf(a[2]))))
    [] op = "sqrt" -> Ok1(U(Sqrt(x)))
    [] op = "bitlen" -> Ok1(U(FromInt(BitLen(Norm(x)))))
    [] op = "exp" -> IF x = <<>> /\ y = <<>> THEN Fail("arith")
                     ELSE LET p == Pow(x, y, WD) IN IF p.ok THEN Ok1(U(p.v)) ELSE Fail("arith")
    [] op = "expw" -> IF x = <<>> /\ y = <<>> THEN Fail("arith")
                      ELSE LET p == Pow(x, y, 2 * WD)
                           IN IF p.ok THEN Ok(<<U(HiWord(p.v)), U(LoWord(p.v))>>) ELSE Fail("arith")
    [] op = "divmodw" ->
         LET n == DWord(x, y)
             d == DWord(z, a[4].v)
         IN IF d = <<>> THEN Fail("arith")
            ELSE LET qr == DivMod(n, d)
                 IN Ok(<<U(HiWord(qr[1])), U(LoWord(qr[1])), U(HiWord(qr[2])), U(LoWord(qr[2]))>>)
    [] op = "divw" ->
         IF z = <<>> THEN Fail("arith")
         ELSE LET q == Div(DWord(x, y), z) IN IF FitsWord(q) THEN Ok1(U(q)) ELSE Fail("arith")
    [] op = "concat" -> IF Len(x) + Len(y) > MaxBytes THEN Fail("range") ELSE Ok1(B(x \o y))
    \* the immediates of substring / extract are single bytes: a text carrying a larger one does not assemble
    [] op = "substring" ->
         IF imm[1] > 255 \/ imm[2] > 255 THEN Fail("immediate")
         ELSE IF imm[2] < imm[1] \/ imm[2] > Len(x) THEN Fail("range") ELSE Ok1(B(Slice(x, imm[1], imm[2])))
    [] op = "substring3" ->
         LET s == IntOf(a[2])
             e == IntOf(a[3])
         IN IF s < 0 \/ e < 0 \/ e < s \/ e > Len(x) THEN Fail("range") ELSE Ok1(B(Slice(x, s, e)))
    [] op = "extract" ->
         LET s == imm[1]
             l == imm[2]
         IN IF s > 255 \/ l > 255 THEN Fail("immediate")
            ELSE IF s > Len(x) THEN Fail("range")
            ELSE IF l = 0 THEN Ok1(B(Drop(x, s)))
            ELSE IF s + l > Len(x) THEN Fail("range") ELSE Ok1(B(Slice(x, s, s + l)))
    [] op = "extract3" ->
         LET s == IntOf(a[2])
             l == IntOf(a[3])
         IN IF s < 0 \/ l < 0 \/ s > Len(x) \/ s + l > Len(x) THEN Fail("range")
            ELSE Ok1(B(Slice(x, s, s + l)))
    [] op = "extract_uint16" -> IF IntOf(a[2]) < 0 THEN Fail("range") ELSE ExtractUint(x, IntOf(a[2]), 16 \div BitsPerDigit)
    [] op = "extract_uint32" -> IF IntOf(a[2]) < 0 THEN Fail("range") ELSE ExtractUint(x, IntOf(a[2]), 32 \div BitsPerDigit)
    [] op = "extract_uint64" -> IF IntOf(a[2]) < 0 THEN Fail("range") ELSE ExtractUint(x, IntOf(a[2]), 64 \div BitsPerDigit)
    [] op = "getbyte" ->
         LET i == IntOf(a[2]) IN IF i < 0 \/ i >= Len(x) THEN Fail("range") ELSE Ok1(U(FromInt(x[i + 1])))
    [] op = "setbyte" ->
         LET i == IntOf(a[2])
             nv == IntOf(a[3])
         IN IF i < 0 \/ i >= Len(x) \/ nv < 0 \/ nv >= Base THEN Fail("range")
            ELSE Ok1(B([x EXCEPT ![i + 1] = nv]))
    [] op = "getbit" ->
         LET i == IntOf(a[2]) IN
         IF i < 0 THEN Fail("range")
         ELSE IF a[1].t = "u"
              THEN IF i >= WordBits THEN Fail("range")
                   ELSE Ok1(Bool(Mod(Shr(x, i), <<2>>) # <<>>))
              ELSE IF i >= Len(x) * BitsPerDigit THEN Fail("range")
                   ELSE Ok1(Bool(DigitBitMS(x[(i \div BitsPerDigit) + 1], i % BitsPerDigit) = 1))
    [] op = "setbit" ->
         LET i == IntOf(a[2])
             bit == IntOf(a[3])
         IN
         IF i < 0 \/ bit < 0 \/ bit > 1 THEN Fail("range")
         ELSE IF a[1].t = "u"
              THEN IF i >= WordBits THEN Fail("range")
                   ELSE LET cur == Mod(Shr(x, i), <<2>>) # <<>>
                        IN IF cur = (bit = 1) THEN Ok1(U(x))
                           ELSE IF bit = 1 THEN Ok1(U(Add(x, Pow2(i)))) ELSE Ok1(U(Sub(x, Pow2(i))))
              ELSE IF i >= Len(x) * BitsPerDigit THEN Fail("range")
                   ELSE LET bi == (i \div BitsPerDigit) + 1
                        IN Ok1(B([x EXCEPT ![bi] = SetDigitBitMS(x[bi], i % BitsPerDigit, bit)]))
    [] op = "select" -> Ok1(IF z # <<>> THEN a[2] ELSE a[1])
    [] op = "bzero" -> IF IntOf(a[1]) < 0 \/ IntOf(a[1]) > MaxBytes THEN Fail("range")
                       ELSE Ok1(B(Zeros(IntOf(a[1]))))
    [] op = "replace2" -> IF imm[1] + Len(y) > Len(x) THEN Fail("range")
                          ELSE Ok1(B(Take(x, imm[1]) \o y \o Drop(x, imm[1] + Len(y))))
    [] op = "replace3" ->
         LET s == IntOf(a[2]) IN
         IF s < 0 \/ s + Len(z) > Len(x) THEN Fail("range")
         ELSE Ok1(B(Take(x, s) \o z \o Drop(x, s + Len(z))))
    [] op = "b+" -> IF ~BMathOk(a) THEN Fail("range") ELSE Ok1(B(Add(Norm(x), Norm(y))))
    [] op = "b-" -> IF ~BMathOk(a) THEN Fail("range")
                    ELSE IF Lt(Norm(x), Norm(y)) THEN Fail("arith") ELSE Ok1(B(Sub(Norm(x), Norm(y))))
    [] op = "b*" -> IF ~BMathOk(a) THEN Fail("range") ELSE Ok1(B(Mul(Norm(x), Norm(y))))
    [] op = "b/" -> IF ~BMathOk(a) THEN Fail("range")
                    ELSE IF Norm(y) = <<>> THEN Fail("arith") ELSE Ok1(B(Div(Norm(x), Norm(y))))
    [] op = "b%" -> IF ~BMathOk(a) THEN Fail("range")
                    ELSE IF Norm(y) = <<>> THEN Fail("arith") ELSE Ok1(B(Mod(Norm(x), Norm(y))))
    [] op = "b<" -> IF ~BMathOk(a) THEN Fail("range") ELSE Ok1(Bool(Lt(Norm(x), Norm(y))))
    [] op = "b>" -> IF ~BMathOk(a) THEN Fail("range") ELSE Ok1(Bool(Lt(Norm(y), Norm(x))))
    [] op = "b<=" -> IF ~BMathOk(a) THEN Fail("range") ELSE Ok1(Bool(Le(Norm(x), Norm(y))))
    [] op = "b>=" -> IF ~BMathOk(a) THEN Fail("range") ELSE Ok1(Bool(Le(Norm(y), Norm(x))))
    [] op = "b==" -> IF ~BMathOk(a) THEN Fail("range") ELSE Ok1(Bool(Norm(x) = Norm(y)))
    [] op = "b!=" -> IF ~BMathOk(a) THEN Fail("range") ELSE Ok1(Bool(Norm(x) # Norm(y)))
    [] op = "b|" -> LET n == Max2(Len(x), Len(y)) IN Ok1(B(MapOr(PadTo(x, n), PadTo(y, n))))
    [] op = "b&" -> LET n == Max2(Len(x), Len(y)) IN Ok1(B(MapAnd(PadTo(x, n), PadTo(y, n))))
    [] op = "b^" -> LET n == Max2(Len(x), Len(y)) IN Ok1(B(MapXor(PadTo(x, n), PadTo(y, n))))
    [] op = "b~" -> Ok1(B(MapNot(x)))
    [] op = "bsqrt" -> IF Len(x) > MaxBMath THEN Fail("range") ELSE Ok1(B(Sqrt(Norm(x))))
    [] op \in {"sha256", "keccak256", "sha512_256", "sha3_256", "mimc"} -> Ok1(B(Token(op, imm, a, 32)))
    [] op \in {"ed25519verify", "ed25519verify_bare", "ecdsa_verify", "ec_pairing_check",
               "ec_subgroup_check"} -> Ok1(Pred(op, a))
    [] op = "ecdsa_pk_decompress" -> Ok(<<B(Token(op, imm \o <<1>>, a, 32)), B(Token(op, imm \o <<2>>, a, 32))>>)
    [] op = "ecdsa_pk_recover" -> Ok(<<B(Token(op, imm \o <<1>>, a, 32)), B(Token(op, imm \o <<2>>, a, 32))>>)
    [] op = "vrf_verify" -> Ok(<<B(Token(op, imm, a, 64)), Pred(op, a)>>)
    [] op \in {"base64_decode", "ec_add", "ec_scalar_mul", "ec_multi_scalar_mul", "ec_map_to"} ->
         Ok1(B(Token(op, imm, a, 16)))
    [] op = "json_ref" -> IF imm[1] = 1 THEN Ok1(U(Norm(<<SumLen(a, 1) % Base>>))) ELSE Ok1(B(Token(op, imm, a, 8)))
    [] op = "block" -> IF imm[1] = 1 THEN Ok1(U(Norm(x \o <<7>>))) ELSE Ok1(B(Token(op, imm, a, 32)))
=============================================================================
