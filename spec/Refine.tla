------------------------------- MODULE Refine -------------------------------
(***************************************************************************)
(* Validation specification: the emitted TEAL of a batch of programs is    *)
(* run on the AVM (small steps, one TLC behaviour per (program, context))  *)
(* and its outcome is compared with the big-step source meaning of the     *)
(* recipe the program was built from.  The emitted text is the recorded    *)
(* trace of the compiler; AVM.tla replays it; PyTealSem.tla is what it has *)
(* to refine.                                                              *)
(*                                                                         *)
(* Batch file (JSON): Seq of entries                                       *)
(*   [id, recipe |-> [main, rt], cx |-> context-domain descriptor,         *)
(*    texts |-> Seq([teal |-> Seq(instr), R |-> label -> [na, nr],         *)
(*                   tag |-> string])]                                     *)
(* All texts of one recipe are run against the same `want`.                *)
(* Differential part (C03): a text may name an earlier text of the same    *)
(* entry in `cmp` (the same program compiled with scratch-slot             *)
(* optimisation off, everything else equal): the sequence of stack         *)
(* snapshots taken whenever control leaves a routine, the final contents   *)
(* of the user-numbered slots (entry.req) and the outcome must be equal;   *)
(* every text is also compared with text 1 on outcome and req slots.       *)
(***************************************************************************)
EXTENDS AVM, PyTealSem, TLC, Json, IOUtils

Batch == JsonDeserialize(IOEnv.BATCH_FILE)
StepsPerAction == 64
Fuel == 40

VARIABLES tid, cid, k, phase, m, want, ctx, hist
vars == <<tid, cid, k, phase, m, want, ctx, hist>>

\* ---- context domains ----------------------------------------------------------
W64 == [j \in 1..WD |-> Base - 1]
ArgDom(name) ==
  CASE name = "u3" -> << <<0>>, <<1>>, <<2>> >>
    [] name = "u4" -> << <<0>>, <<1>>, <<2>>, <<3>> >>
    [] name = "u6" -> << <<>>, <<1>>, <<2>>, <<0, 5>>, W64, <<1, 0, 0, 0, 0, 0, 0, 0, 0>> >>
    [] name = "w8" -> << <<0>>, <<1>>, <<2>>, <<255, 255, 255, 255>>, <<1, 0, 0, 0, 0>>, <<1, 0, 0, 0, 1>>,
                         <<128, 0, 0, 0, 0, 0, 0, 0>>, W64 >>
    [] name = "w5" -> << <<0>>, <<1>>, <<1, 0, 0, 0, 0>>, <<128, 0, 0, 0, 0, 0, 0, 0>>, W64 >>
    [] name = "w4" -> << <<0>>, <<1>>, <<1, 0, 0, 0, 0>>, W64 >>
    [] name = "w3" -> << <<1>>, <<1, 0, 0, 0, 1>>, W64 >>
    [] name = "w2" -> << <<1>>, <<2, 0, 0, 0, 0>> >>
    [] name = "x16" -> [j \in 1..16 |-> IF j = 1 THEN <<>> ELSE <<j - 1>>]
    [] name = "x8" -> << <<>>, <<1>>, <<2>>, <<3>>, <<7>>, <<8>>, <<14>>, <<15>> >>
    [] name = "x4" -> << <<>>, <<1>>, <<3>>, <<15>> >>
    [] name = "b3" -> << <<>>, <<97>>, <<97, 98, 99>> >>
    [] name = "b4" -> << <<>>, <<0>>, <<97, 98>>, <<255, 1, 2, 3, 4, 5, 6, 7, 8>> >>
    [] name = "k2" -> << <<107>>, <<113>> >>
    [] OTHER -> << <<0>> >>

\* cx = [args: Seq(domain names), ocs: Seq(Nat), appids: Seq(Nat), gsizes: Seq(Nat), gis: Seq(Nat),
\*       gss: Seq(Seq([k, v])), has: Seq(0/1), mode: "app" | "sig"]
Dims(cx) == [j \in 1..Len(cx.args) |-> Len(ArgDom(cx.args[j]))]
           \o <<Len(cx.ocs), Len(cx.appids), Len(cx.gsizes), Len(cx.gss), Len(cx.has)>>
RECURSIVE Prod(_, _)
Prod(d, j) == IF j > Len(d) THEN 1 ELSE d[j] * Prod(d, j + 1)
NCtx(cx) == Prod(Dims(cx), 1)
\* digit j of c in the mixed radix system Dims
RECURSIVE DigitAt(_, _, _)
DigitAt(d, c, j) == IF j = 1 THEN c % d[1] ELSE DigitAt(Tail(d), c \div d[1], j - 1)

\* a context given literally (ABI call checks): group with foreign arrays, position of the application call
RawCtx(cx) == [gi |-> cx.rawctx.gi, group |-> cx.rawctx.group,
               glob |-> [CurrentApplicationID |-> U(<<3, 233>>), Round |-> U(<<42>>)],
               args |-> <<>>, gs |-> <<>>, has |-> 1]

MkCtx(cx, c) ==
  IF "rawctx" \in DOMAIN cx THEN RawCtx(cx) ELSE
  LET d == Dims(cx)
      na == Len(cx.args)
      args == IF "raw" \in DOMAIN cx THEN cx.raw         \* application arguments given literally (ABI checks)
              ELSE [j \in 1..na |-> ArgDom(cx.args[j])[DigitAt(d, c, j) + 1]]
      oc == cx.ocs[DigitAt(d, c, na + 1) + 1]
      appid == cx.appids[DigitAt(d, c, na + 2) + 1]
      gsize == cx.gsizes[DigitAt(d, c, na + 3) + 1]
      gs == cx.gss[DigitAt(d, c, na + 4) + 1]
      has == cx.has[DigitAt(d, c, na + 5) + 1]
      me == [f |-> [OnCompletion |-> U(FromInt(oc)), ApplicationID |-> U(FromInt(appid)),
                    TypeEnum |-> U(FromInt(IF cx.mode = "app" THEN 6 ELSE 1)),
                    Sender |-> B([j \in 1..32 |-> 7]), Fee |-> U(<<3, 232>>),
                    Amount |-> U(<<5>>), Note |-> B(<<110, 111>>), FirstValid |-> U(<<9>>)],
             aa |-> IF cx.mode = "app" THEN args ELSE <<>>,
             acc |-> << [j \in 1..32 |-> 11], [j \in 1..32 |-> 12] >>,
             asst |-> << <<21>>, <<22>> >>, apps |-> << <<31>> >>]
      other(j) == [f |-> [TypeEnum |-> U(FromInt(1 + (j % 6))), Amount |-> U(FromInt(100 + j)),
                          Sender |-> B([x \in 1..32 |-> j]), Fee |-> U(FromInt(j))],
                   aa |-> << <<j>> >>, acc |-> <<>>, asst |-> <<>>, apps |-> <<>>]
      gi == IF gsize >= 2 THEN 2 ELSE 1
  IN [gi |-> gi,
      group |-> [j \in 1..gsize |-> IF j = gi THEN me ELSE other(j)],
      glob |-> [CurrentApplicationID |-> U(FromInt(IF appid = 0 THEN 1001 ELSE appid)),
                Round |-> U(<<42>>), LatestTimestamp |-> U(<<1, 0, 0, 0>>), MinTxnFee |-> U(<<3, 232>>),
                LogicSigVersion |-> U(<<10>>), MinBalance |-> U(<<1, 134, 160>>), MaxTxnLife |-> U(<<3, 232>>)],
      args |-> IF cx.mode = "app" THEN <<>> ELSE args,
      gs |-> gs, has |-> has]

\* ---- judging ---------------------------------------------------------------------
Entry == Batch[tid]
StrictBudget == "strict" \in DOMAIN Entry /\ Entry.strict = 1

\* The source semantics gives up after Fuel loop iterations / calls ("inconclusive"), so a source that reaches a verdict
\* did little work; a text that is still running after MaxSteps instructions then (MaxSteps is set far above what Fuel
\* iterations of the largest generated body cost) does not terminate where the source does.
Compare(w, g) ==
  IF w.class # "inconclusive" /\ g.class = "inconclusive" /\ StrictBudget THEN "runs-on-where-the-source-ends"
  ELSE IF w.class = "inconclusive" \/ g.class = "inconclusive" THEN "inconclusive"
  ELSE IF w.class # g.class THEN "verdict-class"
  ELSE IF w.class = "fail" THEN "ok"
  ELSE IF w.ret # g.ret THEN "return-value"
  ELSE IF w.logs # g.logs THEN "logs"
  ELSE IF w.writes # g.writes THEN "writes"
  ELSE IF w.itxns # g.itxns THEN "itxns"
  ELSE "ok"

Text == Entry.texts[k]

RECURSIVE JoinS(_, _)
JoinS(s, j) == IF j > Len(s) THEN "" ELSE s[j] \o (IF j < Len(s) THEN "," ELSE "") \o JoinS(s, j + 1)

ReqSlots(e, mm) == IF "req" \in DOMAIN e THEN [j \in 1..Len(e.req) |-> MapGet(mm.sc, e.req[j], U0)] ELSE <<>>
\* Exit snapshots.  In a program with recursion the caller's routine-private variables are spilled to the stack around a
\* recursive call; an optimisation that removes such a variable legitimately removes its spilled copy, which lies BELOW the
\* values of the routine that is being left.  For recipes whose call graph has a cycle (entry.rec = 1) the snapshots are
\* therefore compared on the routine left and the value on top (its result); otherwise on the whole stack.
ExitsView(mm) ==
  IF "rec" \in DOMAIN Entry /\ Entry.rec = 1
  THEN [j \in 1..Len(mm.exits) |-> [k |-> mm.exits[j].k, st |-> IF mm.exits[j].st = <<>> THEN <<>> ELSE <<mm.exits[j].st[Len(mm.exits[j].st)]>>]]
  ELSE mm.exits
Snap(mm) == [out |-> MOutcome(mm), exits |-> ExitsView(mm), req |-> ReqSlots(Entry, mm)]

\* ---- constant-load sites (C12): the program with constant blocks vs the pseudo-op program ----------------
\* Every constant-load instruction is replaced by the value it pushes (block indices resolved through the
\* program's intcblock / bytecblock), block declarations are dropped, resolved pcs are forgotten (labels kept).
IntBlockOf(P) == LET S == {j \in 1..Len(P) : P[j].op = "intcblock"} IN IF S = {} THEN <<>> ELSE P[CHOOSE j \in S : \A x \in S : j <= x].cs
ByteBlockOf(P) == LET S == {j \in 1..Len(P) : P[j].op = "bytecblock"} IN IF S = {} THEN <<>> ELSE P[CHOOSE j \in S : \A x \in S : j <= x].cs
ConstOf(P, ins) ==
  CASE ins.op \in {"int", "pushint"} -> [op |-> "const", t |-> "u", v |-> ins.b]
    [] ins.op \in {"byte", "pushbytes", "addr", "method"} -> [op |-> "const", t |-> "b", v |-> ins.b]
    [] ins.op \in {"intc", "intc_0", "intc_1", "intc_2", "intc_3"} ->
         [op |-> "const", t |-> "u", v |-> IF ins.i[1] < Len(IntBlockOf(P)) THEN IntBlockOf(P)[ins.i[1] + 1] ELSE <<0 - 1>>]
    [] ins.op \in {"bytec", "bytec_0", "bytec_1", "bytec_2", "bytec_3"} ->
         [op |-> "const", t |-> "b", v |-> IF ins.i[1] < Len(ByteBlockOf(P)) THEN ByteBlockOf(P)[ins.i[1] + 1] ELSE <<0 - 1>>]
    [] OTHER -> [op |-> ins.op, i |-> ins.i, b |-> ins.b, s |-> ins.s]
ConstView(P) == LET keep == SelectSeq([j \in 1..Len(P) |-> j], LAMBDA j : P[j].op \notin {"intcblock", "bytecblock"})
                IN [x \in 1..Len(keep) |-> ConstOf(P, P[keep[x]])]
ConstSitesAgree == ~("constcheck" \in DOMAIN Entry) \/ ~("cmp" \in DOMAIN Text) \/ Text.cmp = 0 \/ Text.cmp >= k
                   \/ ConstView(Text.teal) = ConstView(Entry.texts[Text.cmp].teal)

\* differential clause of the current text against the texts it is paired with ("" = nothing to report)
DiffClause ==
  LET me == Snap(m)
      cmpk == IF "cmp" \in DOMAIN Text THEN Text.cmp ELSE 0
  IN IF ~ConstSitesAgree THEN "const-sites"
     ELSE IF me.out.class = "inconclusive" THEN ""
     ELSE IF cmpk > 0 /\ cmpk < k /\ hist[cmpk].out.class # "inconclusive" /\ hist[cmpk].out # me.out THEN "diff-outcome"
     ELSE IF cmpk > 0 /\ cmpk < k /\ hist[cmpk].out.class # "inconclusive" /\ me.out.class # "fail" /\ hist[cmpk].exits # me.exits THEN "diff-exit-stack"
     ELSE IF cmpk > 0 /\ cmpk < k /\ hist[cmpk].out.class # "inconclusive" /\ me.out.class # "fail" /\ hist[cmpk].req # me.req THEN "diff-slots"
     ELSE IF k > 1 /\ hist[1].out.class # "inconclusive" /\ hist[1].out # me.out THEN "diff-outcome-vs-first"
     ELSE IF k > 1 /\ hist[1].out.class # "inconclusive" /\ me.out.class # "fail" /\ hist[1].req # me.req THEN "diff-slots-vs-first"
     ELSE ""

Verdict ==
  LET g == MOutcome(m)
      c0 == Compare(want, g)
      d == DiffClause
      c == IF d = "const-sites" \/ (c0 \in {"ok", "inconclusive"} /\ d # "") THEN d ELSE c0
  IN "V|" \o ToString(tid) \o "|" \o ToString(cid) \o "|" \o ToString(k) \o "|" \o c
       \o "|" \o want.class \o "/" \o want.why \o "|" \o g.class \o "/" \o m.why
       \o "|" \o JoinS(m.ghost, 1) \o "|" \o ToString(m.steps)
       \o "|" \o ToString(Len(m.fr)) \o "|" \o ToString(Len(m.exits)) \o "|" \o d      \* last field: the differential clause on its own

Init == /\ tid \in 1..Len(Batch)
        /\ cid \in (IF "cids" \in DOMAIN Batch[tid] /\ Batch[tid].cids # <<>>
                    THEN {Batch[tid].cids[j] : j \in 1..Len(Batch[tid].cids)}
                    ELSE 0..(NCtx(Batch[tid].cx) - 1))
        /\ k = 0 /\ phase = "start" /\ m = <<>> /\ want = <<>> /\ ctx = <<>> /\ hist = <<>>

Start == /\ phase = "start"
         /\ ctx' = MkCtx(Entry.cx, cid)
         /\ want' = SOutcome(Entry.recipe, ctx', Fuel)
         /\ k' = 1 /\ m' = M0(ctx') /\ phase' = "run"
         /\ UNCHANGED <<tid, cid, hist>>

Run == /\ phase = "run" /\ m.status = "run"
       /\ m' = MRun(Text.teal, Text.R, ctx, m, StepsPerAction)
       /\ UNCHANGED <<tid, cid, k, phase, want, ctx, hist>>

Judge == /\ phase = "run" /\ m.status # "run"
         /\ PrintT(Verdict)
         /\ hist' = Append(hist, Snap(m))
         /\ IF k < Len(Entry.texts)
            THEN k' = k + 1 /\ m' = M0(ctx) /\ UNCHANGED phase
            ELSE phase' = "done" /\ UNCHANGED <<k, m>>
         /\ UNCHANGED <<tid, cid, want, ctx>>

Next == Start \/ Run \/ Judge
Spec == Init /\ [][Next]_vars

\* The property as an invariant (used by single-artefact replay, where TLC's
\* counterexample is the AVM run up to the divergence).
Refines == (phase = "run" /\ m.status # "run") =>
              Compare(want, MOutcome(m)) \in {"ok", "inconclusive"}
NoGhost == phase = "run" => m.ghost = <<>>
\* C03 as an invariant (replay)
SameBehaviour == (phase = "run" /\ m.status # "run") => DiffClause = ""
=============================================================================
