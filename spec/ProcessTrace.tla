---------------------------- MODULE ProcessTrace ----------------------------
(***************************************************************************)
(* Trace validation for C11: a history of API calls executed in a real     *)
(* interpreter is replayed through Process.tla (implementation with the    *)
(* restoring context manager).  Each recorded event carries what was       *)
(* observed after the call: marker_none (the class-level marker is None),  *)
(* and for compilations `same` (the TEAL equals the TEAL of the same call  *)
(* in a fresh process, which itself is identical under all hash seeds).    *)
(* An event is consumed only if the observation is what the specification  *)
(* allows; the trace is accepted iff every event is consumed.              *)
(* Batch: Seq(trace), trace = Seq([act, p, o, cls, same, marker_none]).    *)
(***************************************************************************)
EXTENDS Process, IOUtils

Batch == JsonDeserialize(IOEnv.BATCH_FILE)
VARIABLES tid, l
tvars == <<tid, l, marker, inst, hist>>

Trace == Batch[tid]
E == Trace[l]
Obs == E.marker_none = (IF marker' = "none" THEN 1 ELSE 0)

TBuild == E.act = "build" /\ Build(E.p) /\ Obs
TCompile == /\ E.act = "compile" /\ Compile(E.p, E.o) /\ Obs
            /\ E.cls = "teal" /\ (inst[E.p] = "clean" => E.same = 1)
TFail == E.act = "fail" /\ FailCompile(E.p) /\ Obs /\ E.cls = "pyteal"
TNoise == E.act = "noise" /\ Noise /\ Obs

TInit == tid \in 1..Len(Batch) /\ l = 1 /\ Init
TNext == /\ l <= Len(Trace) /\ (TBuild \/ TCompile \/ TFail \/ TNoise)
         /\ l' = l + 1 /\ UNCHANGED tid
\* a trace that cannot be extended although events remain is reported by the Stuck step
Stuck == /\ l <= Len(Trace) /\ ~ENABLED (TBuild \/ TCompile \/ TFail \/ TNoise)
         /\ PrintT("V|" \o ToString(tid) \o "|rejected-at|" \o ToString(l) \o "|" \o E.act \o ":" \o E.p \o ":" \o E.o)
         /\ l' = Len(Trace) + 2 /\ UNCHANGED <<tid, marker, inst, hist>>
Done == /\ l = Len(Trace) + 1 /\ PrintT("V|" \o ToString(tid) \o "|accepted|" \o ToString(Len(Trace)) \o "|")
        /\ l' = Len(Trace) + 3 /\ UNCHANGED <<tid, marker, inst, hist>>
TSpec == TInit /\ [][TNext \/ Stuck \/ Done]_tvars
Accepted == l # Len(Trace) + 2
=============================================================================
