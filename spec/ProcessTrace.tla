---------------------------- MODULE ProcessTrace ----------------------------
(***************************************************************************)
(* Trace validation for C11: a history of API calls executed in a real     *)
(* interpreter is replayed through Process.tla (implementation with the    *)
(* restoring context manager).  Each recorded event carries what was       *)
(* observed after the call: marker_none (the class-level marker is None),  *)
(* and for compilations `same` (the TEAL equals the TEAL of the same call  *)
(* in a fresh process, which itself is identical under all hash seeds),    *)
(* `adv` (the slot counter is higher after the call than before).  Where   *)
(* Process.tla predicts "clean" the TEAL must equal the fresh result (the   *)
(* replay compiles everything twice in a row: two events); where it        *)
(* predicts the                                                            *)
(* recorded deviation "a19" anything is accepted and the trace is reported *)
(* as accepted-with-a19 when the deviation was in fact observed.           *)
(* An event is consumed only if the observation is what the specification  *)
(* allows; the trace is accepted iff every event is consumed.              *)
(* Batch: Seq(trace), trace = Seq([act, p, o, cls, same, marker_none, adv]).*)
(***************************************************************************)
EXTENDS Process, IOUtils

Batch == JsonDeserialize(IOEnv.BATCH_FILE)
VARIABLES tid, l, dev
tvars == <<tid, l, dev, marker, inst, att, stale, dirty, hist>>

Trace == Batch[tid]
E == Trace[l]
Obs == E.marker_none = (IF marker' = "none" THEN 1 ELSE 0)

Adv == E.adv = 1
TBuild == E.act = "build" /\ Build(E.p, Adv) /\ Obs /\ UNCHANGED dev
TCompile == /\ E.act = "compile" /\ Compile(E.p, E.o, Adv) /\ Obs
            /\ (E.p \in Routers => ~Adv)                                     \* a Router compilation leaves the counter where it was
            /\ CASE Result(E.p) = "clean" -> E.cls = "teal" /\ E.same = 1 /\ UNCHANGED dev
                 [] Result(E.p) = "a19" -> E.cls = "teal" /\ dev' = dev + (1 - E.same)
                 [] OTHER -> E.cls = "teal" /\ UNCHANGED dev                   \* tainted: nothing is promised
TFail == E.act = "fail" /\ FailCompile(E.p, Adv) /\ Obs /\ E.cls = "pyteal" /\ UNCHANGED dev
TFailR == E.act = "failr" /\ FailRouter(E.p) /\ Obs /\ E.cls = "pyteal" /\ UNCHANGED dev
TNoise == E.act = "noise" /\ Noise /\ Obs /\ UNCHANGED dev
TAny == TBuild \/ TCompile \/ TFail \/ TFailR \/ TNoise

TInit == tid \in 1..Len(Batch) /\ l = 1 /\ dev = 0 /\ Init
TNext == /\ l <= Len(Trace) /\ TAny
         /\ l' = l + 1 /\ UNCHANGED tid
\* a trace that cannot be extended although events remain is reported by the Stuck step
Stuck == /\ l <= Len(Trace) /\ ~ENABLED TAny
         /\ PrintT("V|" \o ToString(tid) \o "|rejected-at|" \o ToString(l) \o "|" \o E.act \o ":" \o E.p \o ":" \o E.o)
         /\ l' = Len(Trace) + 2 /\ UNCHANGED <<tid, dev, marker, inst, att, stale, dirty, hist>>
Done == /\ l = Len(Trace) + 1
        /\ PrintT("V|" \o ToString(tid) \o "|" \o (IF dev > 0 THEN "accepted-with-a19" ELSE "accepted") \o "|" \o ToString(Len(Trace)) \o "|")
        /\ l' = Len(Trace) + 3 /\ UNCHANGED <<tid, dev, marker, inst, att, stale, dirty, hist>>
TSpec == TInit /\ [][TNext \/ Stuck \/ Done]_tvars
Accepted == l # Len(Trace) + 2
=============================================================================
