------------------------------ MODULE ARC4Gen -------------------------------
(***************************************************************************)
(* Generator: every type of the chosen universe of ARC4.tla is one initial *)
(* state; the single step prints the type with everything the convention   *)
(* says about it: signature string, dynamic-ness, static length, NVals     *)
(* sample values with their reference encodings and, per sample, the       *)
(* encodings of its components (element access, C07).                      *)
(***************************************************************************)
EXTENDS ARC4, Json
CONSTANTS Universe,   \* "level1" | "level2" | "assign" | "strings"
          NVals
VARIABLES t, done
vars == <<t, done>>

Refs == {[k |-> "ref", s |-> x] : x \in {"account", "asset", "application"}}
Txns == {[k |-> "txn", s |-> x] : x \in {"txn", "pay", "axfer", "appl"}}
Named == {TNamed(<<TU(64), TStr>>, "A"), TNamed(<<TU(64), TStr>>, "B"), TNamed(<<TU(8), TBool>>, "A"), TNamed(<<TByte, TBool>>, "C")}
AssignSet == BaseTypes \cup Arrays({TBool, TByte, TU(8), TU(16), TAddr, TStr}, {1, 32}) \cup Tuples({TByte, TU(8), TU(16), TStr, TBool}, 2)
             \cup Tuples({TU(8), TStr}, 3) \cup Refs \cup Txns \cup Named
             \cup {TTup(<<TAddr, TSA(TByte, 32)>>), TTup(<<TSA(TByte, 32), TAddr>>), TTup(<<TStr, TDA(TByte)>>), TTup(<<TDA(TU(8)), TStr>>),
                   TDA(TTup(<<TByte, TU(8)>>)), TDA(TTup(<<TU(8), TByte>>)), TSA(TTup(<<TU(8), TU(8)>>), 2), TSA(TSA(TU(8), 2), 2),
                   TTup(<<TU(8), TU(8), TU(8), TU(8)>>), TSA(TU(8), 3), TSA(TU(8), 4), TTup(<<TTup(<<TU(8), TStr>>), TU(8)>>),
                   TTup(<<TNamed(<<TU(64), TStr>>, "A"), TU(8)>>), TTup(<<TTup(<<TU(64), TStr>>), TU(8)>>)}
Set == CASE Universe = "level1" -> Level1 [] Universe = "level2" -> Level2 [] Universe = "assign" -> AssignSet [] Universe = "strings" -> Strings [] Universe = "wide" -> Wide
SampleOf(x, j) == IF Universe = "strings" THEN ValLong(x, j) ELSE Val(x, j)

HasValues(x) == x.k \notin {"ref", "txn"}
Comps(x, v) ==       \* component types / encodings for containers
  IF x.k \in {"tuple", "sarray", "address"}
  THEN LET es == ElemTypes(x) IN [j \in 1..Len(es) |-> [sig |-> SigString(es[j]), enc |-> Encode(es[j], v[j])]]
  ELSE IF x.k = "darray" THEN [j \in 1..Len(v) |-> [sig |-> SigString(x.e), enc |-> Encode(x.e, v[j])]]
  ELSE IF x.k = "string" THEN [j \in 1..Len(v) |-> [sig |-> "byte", enc |-> <<v[j]>>]]
  ELSE <<>>

Init == t \in Set /\ done = FALSE
Emit == ~done /\ done' = TRUE /\ UNCHANGED t
        /\ PrintT("T|" \o ToJson([t |-> t, sig |-> SigString(t), dyn |-> IsDynamic(t), slen |-> StaticLen(t),
                                  vals |-> IF HasValues(t) /\ NVals > 0
                                           THEN [j \in 1..NVals |-> LET v == SampleOf(t, j - 1) IN [v |-> v, enc |-> Encode(t, v), comps |-> Comps(t, v)]]
                                           ELSE <<>>]))
Next == Emit
Spec == Init /\ [][Next]_vars
=============================================================================
