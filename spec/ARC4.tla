-------------------------------- MODULE ARC4 --------------------------------
(***************************************************************************)
(* The ARC-4 ABI convention, written from the ARC-4 text: types, signature *)
(* strings, static length (bool-run aware), dynamic-ness, encoding with    *)
(* head/tail offsets, length prefixes and bool packing, component access,  *)
(* and the layout normal form used for assignability (C19).                *)
(*                                                                         *)
(* type  = [k |-> "uint", n |-> bits] | [k |-> "bool"] | [k |-> "byte"]    *)
(*       | [k |-> "address"] | [k |-> "string"]                            *)
(*       | [k |-> "sarray", e |-> type, n |-> length]                      *)
(*       | [k |-> "darray", e |-> type]                                    *)
(*       | [k |-> "tuple", es |-> Seq(type), nm |-> "" | name]             *)
(*       | [k |-> "ref", s |-> "account" | "asset" | "application"]        *)
(*       | [k |-> "txn", s |-> "txn" | "pay" | "keyreg" | ...]             *)
(* value = digits (uint) | 0/1 (bool) | 0..255 (byte) | Seq(byte)          *)
(*         (address, string) | Seq(value) (arrays, tuples)                 *)
(***************************************************************************)
EXTENDS BigNat, FiniteSets, TLC

TU(n) == [k |-> "uint", n |-> n]
TBool == [k |-> "bool"]
TByte == [k |-> "byte"]
TAddr == [k |-> "address"]
TStr == [k |-> "string"]
TSA(e, n) == [k |-> "sarray", e |-> e, n |-> n]
TDA(e) == [k |-> "darray", e |-> e]
TTup(es) == [k |-> "tuple", es |-> es, nm |-> ""]
TNamed(es, nm) == [k |-> "tuple", es |-> es, nm |-> nm]

\* element types of a container seen as a tuple
ElemTypes(t) == CASE t.k = "tuple" -> t.es
                  [] t.k = "sarray" -> [j \in 1..t.n |-> t.e]
                  [] t.k = "address" -> [j \in 1..32 |-> TByte]

RECURSIVE IsDynamic(_), AnyDyn(_, _)
AnyDyn(es, j) == IF j > Len(es) THEN FALSE ELSE IsDynamic(es[j]) \/ AnyDyn(es, j + 1)
IsDynamic(t) ==
  CASE t.k \in {"string", "darray"} -> TRUE
    [] t.k = "sarray" -> IsDynamic(t.e)
    [] t.k = "tuple" -> AnyDyn(t.es, 1)
    [] OTHER -> FALSE

\* length of the run of bools starting at position j of es
RECURSIVE BoolRun(_, _)
BoolRun(es, j) == IF j > Len(es) \/ es[j].k # "bool" THEN 0 ELSE 1 + BoolRun(es, j + 1)
CeilDiv(a, b) == (a + b - 1) \div b

\* static byte length (of the head slot when the type is dynamic: 2)
RECURSIVE StaticLen(_), HeadLen(_, _)
HeadLen(es, j) ==       \* total head length of the tuple elements es[j..]
  IF j > Len(es) THEN 0
  ELSE IF es[j].k = "bool" THEN LET r == BoolRun(es, j) IN CeilDiv(r, 8) + HeadLen(es, j + r)
  ELSE (IF IsDynamic(es[j]) THEN 2 ELSE StaticLen(es[j])) + HeadLen(es, j + 1)
StaticLen(t) ==
  CASE t.k = "uint" -> t.n \div 8
    [] t.k \in {"bool", "byte"} -> 1
    [] t.k = "address" -> 32
    [] t.k = "ref" -> 1
    [] t.k = "sarray" -> IF t.e.k = "bool" THEN CeilDiv(t.n, 8) ELSE t.n * StaticLen(t.e)
    [] t.k = "tuple" -> HeadLen(t.es, 1)
    [] OTHER -> 0

RECURSIVE SigString(_), SigJoin(_, _)
SigJoin(es, j) == IF j > Len(es) THEN "" ELSE SigString(es[j]) \o (IF j < Len(es) THEN "," ELSE "") \o SigJoin(es, j + 1)
SigString(t) ==
  CASE t.k = "uint" -> "uint" \o ToString(t.n)
    [] t.k \in {"bool", "byte", "address", "string"} -> t.k
    [] t.k = "sarray" -> SigString(t.e) \o "[" \o ToString(t.n) \o "]"
    [] t.k = "darray" -> SigString(t.e) \o "[]"
    [] t.k = "tuple" -> "(" \o SigJoin(t.es, 1) \o ")"
    [] t.k \in {"ref", "txn"} -> t.s

\* ---- encoding -----------------------------------------------------------------------------
U16(n) == <<n \div 256, n % 256>>
RECURSIVE PackBools(_, _, _, _)
PackBools(vs, j, n, acc) ==     \* n bools vs[j..j+n-1], most significant bit first, zero padded
  IF n = 0 THEN <<>>
  ELSE LET take == IF n >= 8 THEN 8 ELSE n
           byte == LET RECURSIVE B(_) B(q) == IF q = take THEN 0 ELSE vs[j + q] * (2 ^ (7 - q)) + B(q + 1) IN B(0)
       IN <<byte>> \o PackBools(vs, j + take, n - take, acc)

RECURSIVE Encode(_, _), EncTuple(_, _), Heads(_, _, _, _, _), Tails(_, _, _)
\* tails of the dynamic elements, in order
Tails(es, vs, j) == IF j > Len(es) THEN <<>> ELSE (IF IsDynamic(es[j]) THEN Encode(es[j], vs[j]) ELSE <<>>) \o Tails(es, vs, j + 1)
\* heads: off = offset of the next tail
Heads(es, vs, j, off, hl) ==
  IF j > Len(es) THEN <<>>
  ELSE IF es[j].k = "bool"
       THEN LET r == BoolRun(es, j) IN PackBools(vs, j, r, <<>>) \o Heads(es, vs, j + r, off, hl)
  ELSE IF IsDynamic(es[j]) THEN U16(off) \o Heads(es, vs, j + 1, off + Len(Encode(es[j], vs[j])), hl)
  ELSE Encode(es[j], vs[j]) \o Heads(es, vs, j + 1, off, hl)
EncTuple(es, vs) == Heads(es, vs, 1, HeadLen(es, 1), 0) \o Tails(es, vs, 1)
Encode(t, v) ==
  CASE t.k = "uint" -> Pad(v, t.n \div 8)
    [] t.k = "bool" -> IF v = 1 THEN <<128>> ELSE <<0>>
    [] t.k = "byte" -> <<v>>
    [] t.k = "address" -> v
    [] t.k = "ref" -> <<v>>
    [] t.k = "string" -> U16(Len(v)) \o v
    [] t.k = "sarray" -> EncTuple([j \in 1..t.n |-> t.e], v)
    [] t.k = "darray" -> U16(Len(v)) \o EncTuple([j \in 1..Len(v) |-> t.e], v)
    [] t.k = "tuple" -> EncTuple(t.es, v)

\* ---- layout normal form (C19): forgets spellings and field names ------------------------
RECURSIVE Layout(_)
Layout(t) ==
  CASE t.k = "byte" -> TU(8)
    [] t.k = "address" -> TSA(TU(8), 32)
    [] t.k = "string" -> TDA(TU(8))
    [] t.k = "sarray" -> TSA(Layout(t.e), t.n)
    [] t.k = "darray" -> TDA(Layout(t.e))
    [] t.k = "tuple" -> TTup([j \in 1..Len(t.es) |-> Layout(t.es[j])])
    [] t.k = "txn" -> [k |-> "txn"]      \* transactions are not encoded at all: they are group members, whatever their kind
    [] OTHER -> t

\* ---- sample values: Val(t, j) is the j-th sample of type t (deterministic, boundary biased) ----
MaxU(n) == [q \in 1..(n \div 8) |-> 255]
Pick(seq, j) == seq[(j % Len(seq)) + 1]
Mixed(n, j) == Norm([q \in 1..(n \div 8) |-> (17 * q + j) % 256])
RECURSIVE Val(_, _)
Val(t, j) ==
  CASE t.k = "uint" -> Pick(<< <<>>, <<1>>, MaxU(t.n), Mixed(t.n, j) >>, j)
    [] t.k = "bool" -> (j + (j \div 2)) % 2
    [] t.k = "byte" -> Pick(<<0, 255, (65 + j) % 256>>, j)
    [] t.k = "address" -> [q \in 1..32 |-> IF j % 2 = 0 THEN 0 ELSE (q * 7 + j) % 256]
    [] t.k = "string" -> [q \in 1..Pick(<<0, 1, 5, 17>>, j) |-> 97 + ((q + j) % 26)]
    [] t.k = "sarray" -> [q \in 1..t.n |-> Val(t.e, j + q)]
    [] t.k = "darray" -> [q \in 1..Pick(<<0, 1, 2, 3, 9>>, j) |-> Val(t.e, j + q)]
    [] t.k = "tuple" -> [q \in 1..Len(t.es) |-> Val(t.es[q], j + 2 * q)]

\* long strings (length prefixes around one byte): sample j of a string has one of these lengths
LongLens == <<254, 255, 256, 300, 510>>
RECURSIVE ValLong(_, _)
ValLong(t, j) ==
  CASE t.k = "string" -> [q \in 1..Pick(LongLens, j) |-> 97 + ((q + j) % 26)]
    [] t.k = "tuple" -> [q \in 1..Len(t.es) |-> ValLong(t.es[q], j + q)]
    [] OTHER -> Val(t, j)

\* ---- type universes ----------------------------------------------------------------------
BaseTypes == {TBool, TByte, TU(8), TU(16), TU(32), TU(64), TAddr, TStr}
SmallBase == {TBool, TU(8), TU(64), TStr, TAddr}
Tuples(S, n) == {TTup(es) : es \in UNION {[1..m -> S] : m \in 1..n}}
Arrays(S, ns) == {TSA(e, n) : e \in S, n \in ns} \cup {TDA(e) : e \in S}
BoolRuns == {TTup([j \in 1..m |-> TBool]) : m \in {7, 8, 9, 16, 17}}
            \cup {TTup(<<TU(8)>> \o [j \in 1..m |-> TBool] \o <<TStr>>) : m \in {1, 8, 9}}
            \cup {TTup(<<TBool, TBool, TU(16), TBool, TStr, TBool, TBool, TBool>>)}
            \* bool runs next to SEVERAL dynamic elements (head positions and element positions drift apart)
            \cup {TTup(<<TStr, TBool, TBool, TBool, TStr, TStr>>), TTup(<<TBool, TBool, TStr, TStr>>),
                  TTup(<<TBool, TBool, TStr, TU(8), TBool, TBool, TDA(TU(16)), TStr>>)}
Level1 == BaseTypes \cup Arrays(BaseTypes, {1, 2, 3, 8, 9}) \cup Tuples(SmallBase, 3) \cup BoolRuns
Inner == {TTup(<<TU(8), TStr>>), TTup(<<TBool, TBool>>), TSA(TU(16), 2), TDA(TStr), TSA(TBool, 9), TDA(TBool), TTup(<<TStr, TStr>>), TTup(<<TU(64)>>)}
Strings == {TStr, TTup(<<TU(8), TStr>>), TTup(<<TStr, TBool, TStr>>)}
\* elements that start at byte 256 or later / are exactly 255, 256 bytes long (one-byte immediates of extract / substring)
Wide == {TTup(<<TSA(TByte, 300), TTup(<<TU(16), TU(8), TU(64)>>)>>), TTup(<<TU(16), TSA(TU(64), 32), TU(8)>>),
         TTup(<<TSA(TByte, 256), TSA(TU(8), 2)>>), TTup(<<TSA(TByte, 255), TAddr>>), TTup(<<TSA(TByte, 254), TU(16), TSA(TU(16), 3)>>)}
Level2 == Arrays(Inner, {1, 2, 3}) \cup Tuples(Inner \cup {TU(8), TStr, TBool}, 2)
          \cup {TTup(<<a, TU(8), b>>) : a \in Inner, b \in {TDA(TStr), TSA(TBool, 9)}}
=============================================================================
