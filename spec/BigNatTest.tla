----------------------------- MODULE BigNatTest -----------------------------
(* Self-test of BigNat against Python integers: vectors are produced by the harness,     *)
(* TLC evaluates each operator, the verdict line says whether TLC's result = Python's.   *)
EXTENDS Naturals, Sequences, TLC, Json, IOUtils
CONSTANTS Base, WD
INSTANCE BigNat
Vec == JsonDeserialize(IOEnv.BATCH_FILE)
VARIABLES i, done
Got(v) ==
  CASE v.op = "add" -> <<Add(v.a, v.b)>>
    [] v.op = "sub" -> <<Sub(v.a, v.b)>>
    [] v.op = "mul" -> <<Mul(v.a, v.b)>>
    [] v.op = "divmod" -> DivMod(v.a, v.b)
    [] v.op = "cmp" -> <<FromInt(Cmp(v.a, v.b) + 1)>>
    [] v.op = "sqrt" -> <<Sqrt(v.a)>>
    [] v.op = "and" -> <<WAnd(v.a, v.b)>>
    [] v.op = "or" -> <<WOr(v.a, v.b)>>
    [] v.op = "xor" -> <<WXor(v.a, v.b)>>
    [] v.op = "not" -> <<WNot(v.a)>>
    [] v.op = "shl" -> <<Shl(v.a, ToInt(v.b))>>
    [] v.op = "shr" -> <<Shr(v.a, ToInt(v.b))>>
    [] v.op = "bitlen" -> <<FromInt(BitLen(v.a))>>
    [] v.op = "pow" -> LET p == Pow(v.a, v.b, WD) IN IF p.ok THEN <<One, p.v>> ELSE <<Zero, Zero>>
Init == i \in 1..Len(Vec) /\ done = FALSE
Next == /\ ~done /\ done' = TRUE /\ UNCHANGED i
        /\ PrintT("V|" \o ToString(i) \o "|" \o (IF Got(Vec[i]) = Vec[i].r THEN "ok" ELSE "BAD"))
Spec == Init /\ [][Next]_<<i, done>>
=============================================================================
