------------------------------ MODULE TealLegal -----------------------------
(***************************************************************************)
(* What the AVM assembler accepts, per program version and mode: a table   *)
(* transcribed from the TEAL language specification, independently of      *)
(* pyteal/ir/ops.py.  Row: <<opcode, minimum version, modes, pops, pushes>>*)
(* modes: "b" both, "a" Application only, "s" LogicSig only;               *)
(* pops / pushes: stack signature over u (uint64), b (bytes), a (any),     *)
(* "*" = handled by a dedicated rule of AbsAVM.tla (stack shuffles, calls, *)
(* field reads whose type depends on the field).                           *)
(* Where I am not certain of a bound the table is permissive (noted), so   *)
(* an uncertain entry can cost detection but never raise an alarm.         *)
(***************************************************************************)
EXTENDS Naturals, Sequences

OpRows == <<
  <<"err", 1, "b", "", "">>, <<"sha256", 1, "b", "b", "b">>, <<"keccak256", 1, "b", "b", "b">>, <<"sha512_256", 1, "b", "b", "b">>,
  <<"ed25519verify", 1, "b", "bbb", "u">>,        \* permissive: LogicSig-only before version 5
  <<"+", 1, "b", "uu", "u">>, <<"-", 1, "b", "uu", "u">>, <<"/", 1, "b", "uu", "u">>, <<"*", 1, "b", "uu", "u">>,
  <<"<", 1, "b", "uu", "u">>, <<">", 1, "b", "uu", "u">>, <<"<=", 1, "b", "uu", "u">>, <<">=", 1, "b", "uu", "u">>,
  <<"&&", 1, "b", "uu", "u">>, <<"||", 1, "b", "uu", "u">>, <<"==", 1, "b", "aa", "u">>, <<"!=", 1, "b", "aa", "u">>,
  <<"!", 1, "b", "u", "u">>, <<"len", 1, "b", "b", "u">>, <<"itob", 1, "b", "u", "b">>, <<"btoi", 1, "b", "b", "u">>,
  <<"%", 1, "b", "uu", "u">>, <<"|", 1, "b", "uu", "u">>, <<"&", 1, "b", "uu", "u">>, <<"^", 1, "b", "uu", "u">>, <<"~", 1, "b", "u", "u">>,
  <<"mulw", 1, "b", "uu", "uu">>, <<"addw", 2, "b", "uu", "uu">>,
  <<"intcblock", 1, "b", "", "">>, <<"intc", 1, "b", "", "u">>, <<"intc_0", 1, "b", "", "u">>, <<"intc_1", 1, "b", "", "u">>,
  <<"intc_2", 1, "b", "", "u">>, <<"intc_3", 1, "b", "", "u">>, <<"int", 1, "b", "", "u">>,
  <<"bytecblock", 1, "b", "", "">>, <<"bytec", 1, "b", "", "b">>, <<"bytec_0", 1, "b", "", "b">>, <<"bytec_1", 1, "b", "", "b">>,
  <<"bytec_2", 1, "b", "", "b">>, <<"bytec_3", 1, "b", "", "b">>, <<"byte", 1, "b", "", "b">>, <<"addr", 1, "b", "", "b">>, <<"method", 1, "b", "", "b">>,
  <<"arg", 1, "s", "", "b">>, <<"arg_0", 1, "s", "", "b">>, <<"arg_1", 1, "s", "", "b">>, <<"arg_2", 1, "s", "", "b">>, <<"arg_3", 1, "s", "", "b">>,
  <<"txn", 1, "b", "", "*">>, <<"global", 1, "b", "", "*">>, <<"gtxn", 1, "b", "", "*">>, <<"load", 1, "b", "", "a">>, <<"store", 1, "b", "a", "">>,
  <<"txna", 2, "b", "", "*">>, <<"gtxna", 2, "b", "", "*">>, <<"bnz", 1, "b", "u", "">>, <<"bz", 2, "b", "u", "">>, <<"b", 2, "b", "", "">>,
  <<"return", 2, "b", "u", "">>, <<"pop", 1, "b", "a", "">>, <<"dup", 1, "b", "*", "*">>, <<"dup2", 2, "b", "*", "*">>,
  <<"concat", 2, "b", "bb", "b">>, <<"substring", 2, "b", "b", "b">>, <<"substring3", 2, "b", "buu", "b">>,
  <<"balance", 2, "a", "a", "u">>, <<"app_opted_in", 2, "a", "au", "u">>, <<"app_local_get", 2, "a", "ab", "a">>,
  <<"app_local_get_ex", 2, "a", "aub", "au">>, <<"app_global_get", 2, "a", "b", "a">>, <<"app_global_get_ex", 2, "a", "ub", "au">>,
  <<"app_local_put", 2, "a", "aba", "">>, <<"app_global_put", 2, "a", "ba", "">>, <<"app_local_del", 2, "a", "ab", "">>,
  <<"app_global_del", 2, "a", "b", "">>, <<"asset_holding_get", 2, "a", "au", "au">>, <<"asset_params_get", 2, "a", "u", "au">>,
  <<"gtxns", 3, "b", "u", "*">>, <<"gtxnsa", 3, "b", "u", "*">>, <<"assert", 3, "b", "u", "">>, <<"dig", 3, "b", "*", "*">>, <<"swap", 3, "b", "*", "*">>,
  <<"select", 3, "b", "*", "*">>, <<"getbit", 3, "b", "au", "u">>, <<"setbit", 3, "b", "*", "*">>, <<"getbyte", 3, "b", "bu", "u">>,
  <<"setbyte", 3, "b", "buu", "b">>, <<"min_balance", 3, "a", "a", "u">>, <<"pushbytes", 3, "b", "", "b">>, <<"pushint", 3, "b", "", "u">>,
  <<"shl", 4, "b", "uu", "u">>, <<"shr", 4, "b", "uu", "u">>, <<"sqrt", 4, "b", "u", "u">>, <<"bitlen", 4, "b", "a", "u">>, <<"exp", 4, "b", "uu", "u">>,
  <<"divmodw", 4, "b", "uuuu", "uuuu">>, <<"expw", 4, "b", "uu", "uu">>,
  <<"b+", 4, "b", "bb", "b">>, <<"b-", 4, "b", "bb", "b">>, <<"b/", 4, "b", "bb", "b">>, <<"b*", 4, "b", "bb", "b">>, <<"b<", 4, "b", "bb", "u">>,
  <<"b>", 4, "b", "bb", "u">>, <<"b<=", 4, "b", "bb", "u">>, <<"b>=", 4, "b", "bb", "u">>, <<"b==", 4, "b", "bb", "u">>, <<"b!=", 4, "b", "bb", "u">>,
  <<"b%", 4, "b", "bb", "b">>, <<"b|", 4, "b", "bb", "b">>, <<"b&", 4, "b", "bb", "b">>, <<"b^", 4, "b", "bb", "b">>, <<"b~", 4, "b", "b", "b">>,
  <<"bzero", 4, "b", "u", "b">>, <<"gload", 4, "a", "", "a">>, <<"gloads", 4, "a", "u", "a">>, <<"gaid", 4, "a", "", "u">>, <<"gaids", 4, "a", "u", "u">>,
  <<"callsub", 4, "b", "*", "*">>, <<"retsub", 4, "b", "*", "*">>,
  <<"ecdsa_verify", 5, "b", "bbbbb", "u">>, <<"ecdsa_pk_decompress", 5, "b", "b", "bb">>, <<"ecdsa_pk_recover", 5, "b", "bubb", "bb">>,
  <<"loads", 5, "b", "u", "a">>, <<"stores", 5, "b", "ua", "">>, <<"cover", 5, "b", "*", "*">>, <<"uncover", 5, "b", "*", "*">>,
  <<"extract", 5, "b", "b", "b">>, <<"extract3", 5, "b", "buu", "b">>, <<"extract_uint16", 5, "b", "bu", "u">>, <<"extract_uint32", 5, "b", "bu", "u">>,
  <<"extract_uint64", 5, "b", "bu", "u">>, <<"app_params_get", 5, "a", "u", "au">>, <<"log", 5, "a", "b", "">>,
  <<"itxn_begin", 5, "a", "", "">>, <<"itxn_field", 5, "a", "a", "">>, <<"itxn_submit", 5, "a", "", "">>, <<"itxn", 5, "a", "", "*">>, <<"itxna", 5, "a", "", "*">>,
  <<"txnas", 5, "b", "u", "*">>, <<"gtxnas", 5, "b", "u", "*">>, <<"gtxnsas", 5, "b", "uu", "*">>, <<"args", 5, "s", "u", "b">>,
  <<"bsqrt", 6, "b", "b", "b">>, <<"divw", 6, "b", "uuu", "u">>, <<"itxn_next", 6, "a", "", "">>, <<"itxnas", 6, "a", "u", "*">>,
  <<"gitxn", 6, "a", "", "*">>, <<"gitxna", 6, "a", "", "*">>, <<"gitxnas", 6, "a", "u", "*">>, <<"gloadss", 6, "a", "uu", "a">>,
  <<"acct_params_get", 6, "a", "a", "au">>,
  <<"replace2", 7, "b", "bb", "b">>, <<"replace3", 7, "b", "bub", "b">>, <<"base64_decode", 7, "b", "b", "b">>, <<"json_ref", 7, "b", "bb", "a">>,
  <<"ed25519verify_bare", 7, "b", "bbb", "u">>, <<"sha3_256", 7, "b", "b", "b">>, <<"vrf_verify", 7, "b", "bbb", "bu">>, <<"block", 7, "b", "u", "a">>,
  <<"box_create", 8, "a", "bu", "u">>, <<"box_extract", 8, "a", "buu", "b">>, <<"box_replace", 8, "a", "bub", "">>, <<"box_del", 8, "a", "b", "u">>,
  <<"box_len", 8, "a", "b", "uu">>, <<"box_get", 8, "a", "b", "bu">>, <<"box_put", 8, "a", "bb", "">>,
  <<"popn", 8, "b", "*", "*">>, <<"dupn", 8, "b", "*", "*">>, <<"bury", 8, "b", "*", "*">>, <<"frame_dig", 8, "b", "*", "*">>, <<"frame_bury", 8, "b", "*", "*">>,
  <<"proto", 8, "b", "*", "*">>, <<"pushints", 8, "b", "*", "*">>, <<"pushbytess", 8, "b", "*", "*">>,
  <<"box_splice", 10, "a", "buub", "">>, <<"box_resize", 10, "a", "bu", "">>,
  <<"ec_add", 10, "b", "bb", "b">>, <<"ec_scalar_mul", 10, "b", "bb", "b">>, <<"ec_pairing_check", 10, "b", "bb", "u">>,
  <<"ec_multi_scalar_mul", 10, "b", "bb", "b">>, <<"ec_subgroup_check", 10, "b", "b", "u">>, <<"ec_map_to", 10, "b", "b", "b">>,
  <<"mimc", 10, "b", "b", "b">>,        \* permissive (introduced later)
  <<"voter_params_get", 10, "a", "a", "au">>, <<"online_stake", 10, "a", "", "u">>,        \* permissive
  <<"label", 1, "b", "", "">>, <<"pragma", 1, "b", "", "">> >>

OpNames == {OpRows[j][1] : j \in 1..Len(OpRows)}
OpRow(op) == OpRows[CHOOSE j \in 1..Len(OpRows) : OpRows[j][1] = op]

\* field tables: <<name, minimum version, type>>; an unknown name is accepted with type "a" (permissive)
TxnFieldRows == <<
  <<"Sender", 1, "b">>, <<"Fee", 1, "u">>, <<"FirstValid", 1, "u">>, <<"FirstValidTime", 7, "u">>, <<"LastValid", 1, "u">>, <<"Note", 1, "b">>,
  <<"Lease", 1, "b">>, <<"Receiver", 1, "b">>, <<"Amount", 1, "u">>, <<"CloseRemainderTo", 1, "b">>, <<"VotePK", 1, "b">>, <<"SelectionPK", 1, "b">>,
  <<"VoteFirst", 1, "u">>, <<"VoteLast", 1, "u">>, <<"VoteKeyDilution", 1, "u">>, <<"Type", 1, "b">>, <<"TypeEnum", 1, "u">>, <<"XferAsset", 1, "u">>,
  <<"AssetAmount", 1, "u">>, <<"AssetSender", 1, "b">>, <<"AssetReceiver", 1, "b">>, <<"AssetCloseTo", 1, "b">>, <<"GroupIndex", 1, "u">>, <<"TxID", 1, "b">>,
  <<"ApplicationID", 2, "u">>, <<"OnCompletion", 2, "u">>, <<"ApplicationArgs", 2, "b">>, <<"NumAppArgs", 2, "u">>, <<"Accounts", 2, "b">>,
  <<"NumAccounts", 2, "u">>, <<"ApprovalProgram", 2, "b">>, <<"ClearStateProgram", 2, "b">>, <<"RekeyTo", 2, "b">>, <<"ConfigAsset", 2, "u">>,
  <<"ConfigAssetTotal", 2, "u">>, <<"ConfigAssetDecimals", 2, "u">>, <<"ConfigAssetDefaultFrozen", 2, "u">>, <<"ConfigAssetUnitName", 2, "b">>,
  <<"ConfigAssetName", 2, "b">>, <<"ConfigAssetURL", 2, "b">>, <<"ConfigAssetMetadataHash", 2, "b">>, <<"ConfigAssetManager", 2, "b">>,
  <<"ConfigAssetReserve", 2, "b">>, <<"ConfigAssetFreeze", 2, "b">>, <<"ConfigAssetClawback", 2, "b">>, <<"FreezeAsset", 2, "u">>,
  <<"FreezeAssetAccount", 2, "b">>, <<"FreezeAssetFrozen", 2, "u">>, <<"Assets", 3, "u">>, <<"NumAssets", 3, "u">>, <<"Applications", 3, "u">>,
  <<"NumApplications", 3, "u">>, <<"GlobalNumUint", 3, "u">>, <<"GlobalNumByteSlice", 3, "u">>, <<"LocalNumUint", 3, "u">>, <<"LocalNumByteSlice", 3, "u">>,
  <<"ExtraProgramPages", 4, "u">>, <<"Nonparticipation", 5, "u">>, <<"Logs", 5, "b">>, <<"NumLogs", 5, "u">>, <<"CreatedAssetID", 5, "u">>,
  <<"CreatedApplicationID", 5, "u">>, <<"LastLog", 6, "b">>, <<"StateProofPK", 6, "b">>, <<"ApprovalProgramPages", 7, "b">>,
  <<"NumApprovalProgramPages", 7, "u">>, <<"ClearStateProgramPages", 7, "b">>, <<"NumClearStateProgramPages", 7, "u">> >>
GlobalFieldRows == <<
  <<"MinTxnFee", 1, "u">>, <<"MinBalance", 1, "u">>, <<"MaxTxnLife", 1, "u">>, <<"ZeroAddress", 1, "b">>, <<"GroupSize", 1, "u">>,
  <<"LogicSigVersion", 2, "u">>, <<"Round", 2, "u">>, <<"LatestTimestamp", 2, "u">>, <<"CurrentApplicationID", 2, "u">>, <<"CreatorAddress", 3, "b">>,
  <<"CurrentApplicationAddress", 5, "b">>, <<"GroupID", 5, "b">>, <<"OpcodeBudget", 6, "u">>, <<"CallerApplicationID", 6, "u">>,
  <<"CallerApplicationAddress", 6, "b">>, <<"AssetCreateMinBalance", 10, "u">>, <<"AssetOptInMinBalance", 10, "u">>, <<"GenesisHash", 10, "b">> >>

Lookup(rows, name) == LET S == {j \in 1..Len(rows) : rows[j][1] = name} IN IF S = {} THEN <<name, 1, "a">> ELSE rows[CHOOSE j \in S : TRUE]
TxnFieldOps == {"txn", "txna", "txnas", "gtxn", "gtxna", "gtxnas", "gtxns", "gtxnsa", "gtxnsas", "itxn", "itxna", "itxnas", "gitxn", "gitxna", "gitxnas", "itxn_field"}
FieldRow(ins) == IF ins.op \in TxnFieldOps THEN Lookup(TxnFieldRows, ins.s)
                 ELSE IF ins.op = "global" THEN Lookup(GlobalFieldRows, ins.s) ELSE <<"", 1, "a">>

\* one instruction: "" when legal, else the reason
IllegalWhy(ins, pc, version, mode) ==
  IF ins.op = "syntax-error" THEN "syntax"
  ELSE IF ins.op \notin OpNames THEN "unknown-opcode:" \o ins.op
  ELSE LET r == OpRow(ins.op) IN
  IF r[2] > version THEN "opcode-version:" \o ins.op
  ELSE IF r[3] = "a" /\ mode # "app" THEN "opcode-mode:" \o ins.op
  ELSE IF r[3] = "s" /\ mode # "sig" THEN "opcode-mode:" \o ins.op
  ELSE IF FieldRow(ins)[2] > version THEN "field-version:" \o ins.s
  ELSE IF ins.op \notin {"int", "pushint", "pragma", "intcblock"} /\ \E j \in 1..Len(ins.i) : ins.i[j] > 255 \/ (ins.i[j] < 0 /\ ins.op \notin {"frame_dig", "frame_bury"})
       THEN "immediate-range:" \o ins.op
  ELSE IF ins.op \in {"frame_dig", "frame_bury"} /\ (ins.i[1] > 127 \/ ins.i[1] < 0 - 128) THEN "immediate-range:" \o ins.op
  ELSE IF ins.op \in {"b", "bz", "bnz", "callsub"} /\ ins.t = 0 THEN "undefined-label:" \o ins.s
  ELSE IF ins.op \in {"b", "bz", "bnz"} /\ ins.t <= pc /\ version < 4 THEN "backward-branch-before-v4"
  ELSE ""
=============================================================================
