----------------------------- MODULE TableDump ------------------------------
(* prints the opcode table of TealLegal.tla so that the harness computes its height witness from the specification's own table *)
EXTENDS TealLegal, TLC, Json
VARIABLE x
Init == x = 0 /\ PrintT("O|" \o ToJson(OpRows))
Next == FALSE /\ x' = x
Spec == Init /\ [][Next]_x
=============================================================================
