------------------------------ MODULE Accepts -------------------------------
(***************************************************************************)
(* Which (recipe, version, mode) PyTeal has to accept: the lowest program  *)
(* version at which every construct of the recipe exists (from the TEAL    *)
(* language specification and PyTeal's documentation), and the modes in    *)
(* which it is legal.  Anything not listed is "never predicted accepted"   *)
(* (version 99), so an incomplete table can only lose claims, not raise    *)
(* alarms.  A program is predicted accepted iff it is well typed (true by  *)
(* construction of Builder.tla), version >= MinVersion, the mode fits, and *)
(* no routine-local variable can be read before it is written (DefInit).   *)
(***************************************************************************)
EXTENDS DefInit

Never == 99
Max2v(a, b) == IF a >= b THEN a ELSE b

OpMinV(op) ==
  CASE op \in {"+", "-", "*", "/", "%", "<", ">", "<=", ">=", "&&", "||", "==", "!=", "!", "~", "|", "&", "^",
               "len", "itob", "btoi", "concat", "mulw", "addw", "sha256", "keccak256", "sha512_256",
               "substring3"} -> 2
    [] op \in {"getbit", "setbit", "getbyte", "setbyte"} -> 3
    [] op \in {"shl", "shr", "sqrt", "bitlen", "exp", "expw", "divmodw", "bzero", "b+", "b-", "b*", "b/", "b%",
               "b<", "b>", "b<=", "b>=", "b==", "b!=", "b|", "b&", "b^", "b~"} -> 4
    [] op \in {"extract3", "extract_uint16", "extract_uint32", "extract_uint64"} -> 5
    [] op \in {"bsqrt", "divw"} -> 6
    [] op \in {"replace3", "sha3_256"} -> 7
    [] OTHER -> Never

TxnFieldMinV(f) ==
  CASE f \in {"Sender", "Fee", "FirstValid", "LastValid", "Note", "Receiver", "Amount", "TypeEnum", "GroupIndex",
              "TxID"} -> 2
    [] f \in {"ApplicationID", "OnCompletion", "ApplicationArgs", "NumAppArgs", "Accounts", "NumAccounts"} -> 2
    [] f \in {"Assets", "NumAssets", "Applications", "NumApplications"} -> 3
    [] OTHER -> Never

GlobalFieldMinV(f) ==
  CASE f \in {"MinTxnFee", "MinBalance", "MaxTxnLife", "ZeroAddress", "GroupSize"} -> 2
    [] f \in {"LogicSigVersion", "Round", "LatestTimestamp", "CurrentApplicationID"} -> 2
    [] f = "CreatorAddress" -> 3
    [] OTHER -> Never

AppOnlyKinds == {"GGet", "GPut", "GDel", "LGet", "LPut", "LDel", "Log", "MV", "MVHas", "MVVal", "ItxBegin", "ItxNext", "ItxField", "ItxSubmit"}
AppOnlyGlobals == {"LogicSigVersion", "Round", "LatestTimestamp", "CurrentApplicationID", "CreatorAddress"}

OwnMinV(node) ==
  LET k == node.k IN
  CASE k \in {"Int", "Bytes", "Nop", "Seq", "If", "Cond", "Assert", "Return", "Approve", "Reject", "Err", "Pop",
              "Load", "Store", "PVal", "Comment", "Idx"} -> 2
    [] k \in {"DynSet", "DynLoad", "DynStore"} -> 5        \* loads / stores
    [] k \in {"Op", "Nary"} -> OpMinV(node.s)
    [] k \in {"Txn", "TxnA"} -> TxnFieldMinV(node.s)
    [] k = "Global" -> GlobalFieldMinV(node.s)
    [] k = "LsigArg" -> 2
    [] k \in {"While", "For", "Break", "Continue"} -> 4      \* backward branches exist from version 4
    [] k = "Substring" -> 2
    [] k \in {"Extract", "Suffix"} -> 5
    [] k \in {"GGet", "GPut", "GDel", "LGet", "LPut", "LDel"} -> 2
    [] k = "Log" -> 5
    [] k = "WideRatio" -> 5
    [] k = "Call" -> 4
    [] k \in {"Ref", "PRef", "PLoad", "PStore"} -> 5        \* by-reference parameters are accessed with loads / stores (version 5)
    [] OTHER -> Never

RECURSIVE MinV(_), MinVSeq(_, _)
MinVSeq(a, i) == IF i > Len(a) THEN 2 ELSE Max2v(MinV(a[i]), MinVSeq(a, i + 1))
MinV(node) == Max2v(OwnMinV(node), MinVSeq(node.a, 1))

RECURSIVE Kinds(_), KindsSeq(_, _)
KindsSeq(a, i) == IF i > Len(a) THEN {} ELSE Kinds(a[i]) \cup KindsSeq(a, i + 1)
Kinds(node) == {IF node.k = "Global" THEN "Global:" \o node.s ELSE node.k} \cup KindsSeq(node.a, 1)

ProgMinV(prog) ==
  LET rs == Routines(prog) IN
  LET RECURSIVE M(_) M(S) == IF S = {} THEN 2 ELSE LET r == CHOOSE x \in S : TRUE IN Max2v(MinV(BodyOf(prog, r)), M(S \ {r}))
  IN Max2v(M(rs), IF rs # {0} THEN 4 ELSE 2)

ProgKinds(prog) == UNION {Kinds(BodyOf(prog, r)) : r \in Routines(prog)}

ModeOK(prog, mode) ==
  LET ks == ProgKinds(prog) IN
  IF mode = "app" THEN "LsigArg" \notin ks
  ELSE ks \cap AppOnlyKinds = {} /\ \A g \in AppOnlyGlobals : ("Global:" \o g) \notin ks

\* PyTeal documents that ScratchVar (by-reference) parameters are not allowed in recursive subroutines
InCycle(prog, r) == LET cs == Callees(BodyOf(prog, r)) IN cs # {} /\ r \in ReachFrom(prog, cs)
NoRefRecursion(prog) ==
  \A r \in Routines(prog) \ {0} :
     (\E j \in 1..Len(prog.rt[r].pk) : prog.rt[r].pk[j] = "r") => ~InCycle(prog, r)

\* ---- slot limits (C10): at most 256 distinct storage cells, no two variables requesting the same slot id ----
AllUsedVars(prog) == UNION {UsedVars(BodyOf(prog, r)) : r \in Routines(prog)}
AllUsedDyns(prog) == UNION {UsedDyns(BodyOf(prog, r)) : r \in Routines(prog)}
\* by-value parameters of the scratch calling convention are cells too (one per parameter)
ParamCells(prog) == LET RECURSIVE S(_) S(R) == IF R = {} THEN 0 ELSE LET r == CHOOSE x \in R : TRUE IN Len(prog.rt[r].pk) + S(R \ {r})
                    IN S(Routines(prog) \ {0})
ReqSlot(prog, v) == IF "vars" \in DOMAIN prog /\ v <= Len(prog.vars) THEN prog.vars[v].slot ELSE 0 - 1
DuplicateRequest(prog) ==
  \E v, w \in AllUsedVars(prog) : v # w /\ ReqSlot(prog, v) >= 0 /\ ReqSlot(prog, v) = ReqSlot(prog, w)
CellsLowerBound(prog) == Cardinality(AllUsedVars(prog)) + Cardinality(AllUsedDyns(prog))
CellsUpperBound(prog) == CellsLowerBound(prog) + ParamCells(prog)
MustRejectSlots(prog) == DuplicateRequest(prog) \/ CellsLowerBound(prog) > 256
SlotsOK(prog) == ~DuplicateRequest(prog) /\ CellsUpperBound(prog) <= 256

Accepts(prog, version, mode) ==
  version >= ProgMinV(prog) /\ version <= 10 /\ ModeOK(prog, mode) /\ ~MustReject(prog) /\ NoRefRecursion(prog)
  /\ SlotsOK(prog) /\ BadLoadsDeadCode(prog) = {}
=============================================================================
