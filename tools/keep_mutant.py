#!/usr/bin/env python3
"""keep_mutant.py <prop> <k> <patch> <detected_by comma list or '-'> <note>  - copies a confirmed seeded change from
/tmp/wt/<prop>/_out/m<k>/ into /verif/seeded/<prop>-m<k>/ with meta.json extended by what was run here."""
import json, os, shutil, sys
prop, k, patch, det, note = sys.argv[1:6]
src = "/tmp/wt/%s/_out/m%s" % (prop, k)
dst = "/verif/seeded/%s-m%s" % (prop, k)
os.makedirs(dst, exist_ok=True)
shutil.copy(patch, os.path.join(dst, "patch.diff"))
shutil.copy(os.path.join(src, "demo.py"), os.path.join(dst, "demo.py"))
meta = json.load(open(os.path.join(src, "meta.json")))
meta["confirmed_here"] = ("patch applies to /repo HEAD (with the fix: commits); demo.py exits 0 on the unchanged tree and non-zero with "
                          "the patch; repository tests: sub-agent ran the baseline command before/after (same failing set)")
meta["detected_by"] = [] if det == "-" else det.split(",")
meta["note"] = note
json.dump(meta, open(os.path.join(dst, "meta.json"), "w"), indent=1)
print("kept", dst)
