#!/usr/bin/env python3
"""keep_mutant2.py <prop> <k(wave-3 index)> <newname> <detected_by|-> <note>: copies a wave-3 seeded change from /tmp/wt3/<prop>/_out/m<k>/"""
import json, os, shutil, sys
prop, k, name, det, note = sys.argv[1:6]
src = "/tmp/wt3/%s/_out/m%s" % (prop, k)
dst = "/verif/seeded/%s" % name
os.makedirs(dst, exist_ok=True)
shutil.copy(os.path.join(src, "patch.diff"), os.path.join(dst, "patch.diff"))
shutil.copy(os.path.join(src, "demo.py"), os.path.join(dst, "demo.py"))
meta = json.load(open(os.path.join(src, "meta.json")))
meta["wave"] = 3
meta["confirmed_here"] = "patch applies to /repo HEAD; demo and repository test-suite results as reported by the sub-agent (same failing set modulo the known flaky tests)"
meta["detected_by"] = [] if det == "-" else det.split(",")
meta["note"] = note
json.dump(meta, open(os.path.join(dst, "meta.json"), "w"), indent=1)
print("kept", dst)
