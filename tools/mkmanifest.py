#!/usr/bin/env python3
"""Regenerates /verif/MANIFEST.json from the table below (single source of truth for the interface)."""
import json, os
V = os.path.dirname(os.path.dirname(os.path.abspath(__file__)))
props = [json.loads(l)["id"] for l in open(os.path.join(V, "properties.jsonl"))]

CHECKS = {
 "C01": dict(cat="model_checking", ref="5 C01",
   text="TLC enumerates every program of spec/Gen.tla up to a node budget (control, effect and loop alphabets); each is replayed into PyTeal, compiled at versions 2..10, and TLC runs the emitted TEAL on spec/AVM.tla for every context of the recipe's domain, comparing verdict, return value, logs, state writes and inner transactions with spec/PyTealSem.tla (spec/Refine.tla). Exhaustive within the bounds, nothing beyond them.",
   note="trusts the AVM/PyTeal-semantics transcriptions (calibrated against the repository's golden programs), the tokenizer glue, TLC; hashes and ledger lookups are uninterpreted",
   tech="TLA+ refinement check (TLC): Builder-generated programs replayed into PyTeal, emitted TEAL executed on an AVM spec against a big-step source semantics"),
 "C02": dict(cat="model_checking", ref="5 C02",
   text="TLC enumerates programs with subroutines from spec/Gen.tla per routine-signature catalogue entry (self/mutual/three-cycle recursion guarded by a count-down parameter, by-value and by-reference parameters incl. forwarded references, none/uint64/bytes results, routine-private variables, calls in statement and operand position); each is compiled for versions 4..10 x frame pointers x slot optimisation and TLC runs every distinct text on spec/AVM.tla for recursion depths 0..3 against the call semantics of spec/PyTealSem.tla; AVM.tla additionally checks at every retsub that exactly the declared results lie above an unchanged caller stack.",
   note="trusts callsub/retsub/proto/frame_dig/frame_bury semantics of AVM.tla; ABI-typed parameters are covered by the C06/C07/C09 checks, not here",
   tech="TLA+ refinement check (TLC): Gen-enumerated recursive programs replayed into PyTeal, emitted TEAL executed on the AVM spec vs source call semantics + retsub ghost invariants"),
 "C03": dict(cat="model_checking", ref="5 C03",
   text="Programs enumerated by TLC from spec/Gen.tla (optimiser-shaped alphabets: store-then-load pairs, non-adjacent loads, repeated stores, requested slot ids; control and loop alphabets; recursive routines) are compiled under every setting {scratch_slots} x {frame_pointers} x versions 2..10; TLC (differential part of spec/Refine.tla) runs all texts of a recipe on spec/AVM.tla over its context domain and requires equal verdict, return value, logs, writes, inner transactions and user-numbered slots, and - optimised vs unoptimised text of the same version and convention - equal stack snapshots at every routine exit.",
   note="one OptimizeOptions object per setting is reused across compilations (as Router.compile_program does); trusts AVM.tla",
   tech="TLA+ differential check (TLC): product of AVM runs of the same Gen-generated program under all option settings, exit-stack snapshots compared"),
 "C06": dict(cat="model_checking", ref="5 C06",
   text="TLC enumerates the ARC-4 type universes of spec/ARC4Gen.tla (all basic types, arrays of 1/2/3/8/9 elements, tuples up to 3 members, bool runs 7..17, nested shapes) together with signature string, dynamic-ness, static length, sample values and reference encodings computed in TLA+ (spec/ARC4.tla). For each (type, value) the program assembling the value with set(...) and logging encode() is compiled (main routine and subroutine/frame variables, versions 6/8/9 quick, 5..10 thorough) and TLC runs it on spec/AVM.tla against 'log the reference encoding' (spec/Refine.tla); type facts are compared three-way (TLA+, PyTeal, algosdk); out-of-range literals must be rejected and out-of-range expression operands must fail.",
   note="ARC4.tla is cross-checked against algosdk.abi on every value used (a disagreement is a machinery failure, not a violation)",
   tech="TLA+ ARC-4 codec specification (TLC) as oracle; emitted encoder programs executed on the AVM spec"),
 "C07": dict(cat="model_checking", ref="5 C07",
   text="For the type universes of spec/ARC4Gen.tla, programs that decode application argument 0 and log one component (tuple[i], named-tuple field, array[i] with constant and run-time index, length(), get()) are compiled and run by TLC on spec/AVM.tla with arg0 = the reference encoding computed in TLA+; expected behaviour = log the component's reference encoding, or fail for an array index outside the bounds (length, length+1, padding bit, 65535).",
   note="two recorded findings: array element access has no bounds check (bool padding bits; dynamic elements at index == length)",
   tech="TLA+ ARC-4 codec specification (TLC) as oracle; emitted decoder/accessor programs executed on the AVM spec"),
 "C08": dict(cat="model_checking", ref="5 C08",
   text="TLC enumerates all 1024 per-OnCompletion call configurations (spec/RouterGen.tla); routers built from them (single method: subset in quick / all in thorough; multi-method; bare-only; method + bare; with/without clear-state action) are compiled at versions 6..10 and TLC (spec/RouterCheck.tla) runs approval and clear-state programs on spec/AVM.tla for every call of the call domain as initial states (argument lists x OnCompletion 0..5 x create/call), comparing approval and the handler's logged marker with Router!Dispatch (spec/Router.tla).",
   note="handlers take no arguments here (argument marshalling is C09); the approval program is only judged for OnCompletion != ClearState and the clear-state program only for ClearState, as the ledger does",
   tech="TLA+ dispatch specification (TLC): emitted router programs executed on the AVM spec over the full call domain vs Dispatch()"),
 "C09": dict(cat="model_checking", ref="5 C09",
   text="For a catalogue of method signatures (0..17 plain parameters, transaction parameters in every position class, reference parameters incl. inside the packed tuple, void/non-void) spec/CallGen.tla computes from the ARC-4 calling convention and the codec of spec/ARC4.tla what a conforming client sends (application arguments with tuple packing from the 15th, foreign arrays, preceding transactions) and what an echo handler must log; the routed program (versions 6..10, both glue flavours) is run by TLC on spec/AVM.tla in that context (spec/Refine.tla): exactly the expected return log then approve; wrong transaction type fails. Contract description vs dispatched selectors is compared per router, also for renamed registrations.",
   note="client side and expected bytes come from the TLA+ specification; selectors (hash) from the harness",
   tech="TLA+ calling-convention specification (TLC) as client; routed programs executed on the AVM spec"),
 "C10": dict(cat="model_checking", ref="5 C10",
   text="A parameter grid (1..300 live variables x requested-id patterns incl. adjacent runs, 0/255 and duplicates x DynamicScratchVar views x main/subroutine placement x option settings) is enumerated completely; every variable receives a distinct marker and is read back. TLC runs each compiled text on spec/AVM.tla against the cell semantics of spec/PyTealSem.tla (read-back, index(), DynamicScratchVar) and compares all option settings incl. final user-numbered slots (spec/Refine.tla); TLC judges compile outcomes against the slot-limit model of spec/Accepts.tla (spec/Compile.tla).",
   note="frame-local ABI storage is covered by the ABI checks; the 256 limit is judged on unoptimised compilations only (the optimiser may legitimately remove a variable)",
   tech="TLA+ refinement + outcome validation (TLC): exhaustive parameter grid of many-variable programs executed on the AVM spec vs cell semantics; slot-limit model"),
 "C11": dict(cat="model_checking", ref="5 C11",
   text="spec/Process.tla models the process-global state (frame marker consulted by ABI constructors, instances built under it) with API calls as actions; TLC explores all histories to depth 5/6 checking HistoryIndependence and MarkerRestored (the variant without restore must violate them). Histories generated by TLC (all of depth 3, sampled; seeded simulation to depth 6/8) are replayed in a real interpreter, one forked child each; every event records the marker and whether the TEAL equals the fresh-process TEAL (identical under 3 hash seeds); spec/ProcessTrace.tla validates each trace event by event.",
   note="the catalogue of 7 program kinds + 3 failing compilations stands for 'all programs'; one recorded finding (router re-compilation)",
   tech="TLA+ model of process-global state (TLC) + trace validation of replayed API histories against it; fresh-process/hash-seed references"),
 "C12": dict(cat="model_checking", ref="5 C12",
   text="Programs loading constant multisets (structured families, frequency ladders, every spelling of one byte value, enums, templates, addresses, selectors, >255 distinct repeated constants, seeded random multisets) are compiled with assembleConstants off/on at versions 3..10. TLC (spec/Refine.tla) checks site by site that each constant-load instruction of the assembled text - block indices resolved through intcblock/bytecblock - pushes the value of the pseudo-op text, that the remaining instruction streams are identical, and runs both texts on spec/AVM.tla against the source meaning (constants are logged).",
   note="template placeholders get one deterministic stand-in value per name; selectors/addresses are decoded by the harness tokenizer",
   tech="TLA+ validation (TLC): static constant-site equivalence of assembled vs pseudo-op program + differential AVM execution"),
 "C13": dict(cat="model_checking", ref="5 C13",
   text="TLC enumerates literal texts as strings over character classes (spec/LitGen.tla); concretised literals (Bytes from str/bytes/base16/32/64 incl. ill-formed texts, Int, Addr, MethodSignature) are compiled and the emitted TEAL text is lexed character by character in TLA+ with the assembler's line grammar (spec/TealLex.tla); spec/Lex.tla requires exactly the expected five statements and that the literal decodes to the bytes/number the user wrote, and that ill-formed base16/32/64/address texts were rejected at construction.",
   note="TealLex.tla is my transcription of the assembler grammar; hashes (selector, address checksum) come from the harness",
   tech="TLA+ lexer specification (TLC) applied to emitted literal lines; class strings enumerated by TLC"),
 "C18": dict(cat="model_checking", ref="5 C18",
   text="Programs from spec/Gen.tla are compiled plain and with annotations at random positions (Comment around any node, Assert comments, Pragma, Nonce, subroutine names incl. identical names) with texts over the LitGen character classes incl. line breaks, quotes, '//' and ';' and texts > 256 characters; both TEAL texts are lexed in TLA+ (spec/TealLex.tla) and spec/Lex.tla requires equal statement streams up to a label bijection (no duplicate labels) and the documented Nonce push+pop.",
   note="annotation texts PyTeal refuses with a PyTeal error are not violations; two recorded findings (comment keeps a block / hides a store-load pair)",
   tech="TLA+ lexer specification (TLC): statement streams of annotated vs plain text compared modulo label renaming"),
 "C14": dict(cat="model_checking", ref="5 C14",
   text="For the C09 signature catalogue spec/CallGen.tla computes the ARC-4 client view of a call; the harness builds InnerTxnBuilder.ExecuteMethodCall with ABI-valued, pre-encoded, reference, transaction-dictionary and extra-field arguments; TLC runs the emitted TEAL on spec/AVM.tla and compares the submitted inner group (spec/Refine.tla, itxns) with the convention: preceding transactions, selector + argument list with tuple packing from the 15th, foreign arrays and index bytes; ill-typed arguments must be rejected at build.",
   note="one recorded finding (no tuple packing beyond 15 arguments)",
   tech="TLA+ calling-convention specification (TLC) as oracle for the inner transaction group built on the AVM spec"),
 "C16": dict(cat="model_checking", ref="5 C16",
   text="All 35 factor-count combinations of WideRatio are replayed into PyTeal; TLC runs the emitted TEAL on spec/AVM.tla against the big-number meaning of WideRatio in spec/PyTealSem.tla: on a scaled 4-bit-word machine over every factor tuple (small counts) and on the 64-bit machine over boundary values. Exact result or failure, compared by TLC per (program, context).",
   note="trusts BigNat.tla (self-tested against Python integers at setup), the mulw/divmodw/cover/uncover semantics of AVM.tla, soundness of the scaled machine for width-generic code",
   tech="TLA+ refinement check (TLC): emitted WideRatio code executed on the AVM spec for enumerated operand tuples vs exact big-number semantics"),
 "C17": dict(cat="model_checking", ref="5 C17",
   text="TLC enumerates programs with un-initialised variables from spec/Gen.tla; spec/DefInit.tla decides on the recipe whether a syntactic path reaches a load of a routine-local variable that was never stored; spec/Compile.tla judges the real compiler's outcome (must be a PyTeal error whose cause is a load of such a variable). Every recipe up to the node budget, one direction only.",
   note="trusts the recipe->constructor glue; 'syntactic path' = every branch both ways, loops zero or more times",
   tech="TLA+ model (DefInit) of definite initialisation evaluated by TLC on Builder-generated programs; real compile outcomes validated against it"),
 "C19": dict(cat="model_checking", ref="5 C19",
   text="TLC enumerates the type universe of spec/ARC4Gen.tla (basic types, arrays, tuples, named tuples, all equivalent spellings, reference and transaction kinds, nested shapes); for every ordered pair the real assignability relation is evaluated and a subroutine call passing an a-typed value to a b-typed parameter of a reused subroutine object is built; TLC (spec/Assign.tla) requires assignable(a,b) => Layout(a) = Layout(b) with the layout normal form of spec/ARC4.tla, and that no call with differently laid-out types was accepted. Exhaustive over the universe (7,921 pairs), sampled beyond in the thorough tier.",
   note="one direction only (a stricter implementation is not an alarm); Layout() is my reading of ARC-4",
   tech="TLA+ model of ARC-4 layouts (TLC) judging the real assignability relation over all ordered type pairs"),
 "C20": dict(cat="model_checking", ref="5 C20",
   text="Every finished behaviour of spec/Gen.tla (well typed by construction; control, effect, loop, degenerate and un-initialised alphabets) plus long/deep size-parametrised programs is compiled by PyTeal for versions 2..10 x both modes x option settings; TLC (spec/Compile.tla) judges each outcome class: never a foreign exception, and TEAL whenever spec/Accepts.tla predicts acceptance.",
   note="Accepts.tla's version/mode table is conservative (unknown constructs are never predicted accepted)",
   tech="TLC-enumerated programs replayed into PyTeal; compile outcome classes validated by TLC against an acceptance model (Accepts/DefInit)"),
}
NA_REASON = "check under construction in this round (DESIGN.md section 10); it will be claimed once its TLC validation runs green on the unchanged tree"

m = {"version": 1, "setup_cmd": "./setup.sh",
     "hooks": {"guard": "PYTEAL_VERIF", "enable": "no source hooks: checks import PyTeal from /repo's working tree (VERIF_REPO overrides the path)",
               "baseline_off_cmd": "cd /repo && /venv/bin/python -m pytest -q -p no:cacheprovider --timeout=900 --continue-on-collection-errors",
               "source_commits": [], "add_only": True},
     "engines": [{"name": "tlc", "path": "/opt/veriftools/tla/tla2tools.jar", "serves_properties": props,
                  "kind_free_text": "TLC model checker over the TLA+ modules in /verif/spec; the Python harness replays spec behaviours into PyTeal and feeds the artefacts back to TLC as constants"}],
     "checks": [], "not_applicable": [],
     "notes": "Model-based verification with explicit TLA+ specifications; DESIGN.md explains the architecture, known_findings.json lists recorded genuine defects."}
for p in props:
    if p in CHECKS:
        c = CHECKS[p]
        m["checks"].append({"property_id": p, "quick_cmd": "./check %s --tier quick" % p,
                            "thorough_cmd": "./check %s --tier thorough" % p,
                            "evidence_file": "evidence/%s.json" % p,
                            "replay_cmd_template": "./check %s --replay {path}" % p, "engine": "tlc",
                            "level_claimed": {"category": c["cat"], "text": c["text"], "design_ref": c["ref"]},
                            "level_note": c["note"], "technique": c["tech"]})
    else:
        m["not_applicable"].append({"property_id": p, "reason": NA_REASON})
json.dump(m, open(os.path.join(V, "MANIFEST.json"), "w"), indent=1)
print("checks:", [c["property_id"] for c in m["checks"]])
