#!/usr/bin/env python3
"""Regenerates /verif/MANIFEST.json from the table below (single source of truth for the interface)."""
import json, os
V = os.path.dirname(os.path.dirname(os.path.abspath(__file__)))
props = [json.loads(l)["id"] for l in open(os.path.join(V, "properties.jsonl"))]

CHECKS = {
 "C01": dict(cat="model_checking", ref="5 C01",
   text="TLC enumerates every program of spec/Builder.tla up to a node budget (control, effect and loop alphabets); each is replayed into PyTeal, compiled at versions 2..10, and TLC runs the emitted TEAL on spec/AVM.tla for every context of the recipe's domain, comparing verdict, return value, logs, state writes and inner transactions with spec/PyTealSem.tla (spec/Refine.tla). Exhaustive within the bounds, nothing beyond them.",
   note="trusts the AVM/PyTeal-semantics transcriptions (calibrated against the repository's golden programs), the tokenizer glue, TLC; hashes and ledger lookups are uninterpreted",
   tech="TLA+ refinement check (TLC): Builder-generated programs replayed into PyTeal, emitted TEAL executed on an AVM spec against a big-step source semantics"),
}
NA_REASON = "check under construction in this round (DESIGN.md section 10); it will be claimed once its TLC validation runs green on the unchanged tree"

m = {"version": 1, "setup_cmd": "./setup.sh",
     "hooks": {"guard": "PYTEAL_VERIF", "enable": "no source hooks: checks import PyTeal from /repo's working tree (VERIF_REPO overrides the path)",
               "baseline_off_cmd": "cd /repo && /venv/bin/python -m pytest -q -p no:cacheprovider --timeout=900 --continue-on-collection-errors",
               "source_commits": [], "add_only": True},
     "engines": [{"name": "tlc", "path": "/opt/veriftools/tla/tla2tools.jar", "serves_properties": props,
                  "kind_free_text": "TLC model checker over the TLA+ modules in /verif/spec; the Python harness replays spec behaviours into PyTeal and feeds the artefacts back to TLC as constants"}],
     "checks": [], "not_applicable": [],
     "notes": "Model-based verification with explicit TLA+ specifications; DESIGN.md explains the architecture, known_findings.json lists recorded genuine defects."}
for p in props:
    if p in CHECKS:
        c = CHECKS[p]
        m["checks"].append({"property_id": p, "quick_cmd": "./check %s --tier quick" % p,
                            "thorough_cmd": "./check %s --tier thorough" % p,
                            "evidence_file": "evidence/%s.json" % p,
                            "replay_cmd_template": "./check %s --replay {path}" % p, "engine": "tlc",
                            "level_claimed": {"category": c["cat"], "text": c["text"], "design_ref": c["ref"]},
                            "level_note": c["note"], "technique": c["tech"]})
    else:
        m["not_applicable"].append({"property_id": p, "reason": NA_REASON})
json.dump(m, open(os.path.join(V, "MANIFEST.json"), "w"), indent=1)
print("checks:", [c["property_id"] for c in m["checks"]])
