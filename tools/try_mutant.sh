#!/bin/sh
# usage: tools/try_mutant.sh <patch.diff> <ID> [<ID>...]
# Applies a seeded change to a scratch worktree of /repo's HEAD (never to /repo itself), runs the quick checks with
# VERIF_REPO pointing at it, removes the change again.  VERIF_TIER may be set by the caller.
P="$1"; shift
W=/tmp/wt/mutrun_$$
git -C /repo worktree add -q --detach "$W" HEAD || exit 2
( cd "$W" && git apply "$P" ) || { echo "patch does not apply"; git -C /repo worktree remove --force "$W"; exit 2; }
cd /verif
for id in "$@"; do
  mkdir -p work
  VERIF_REPO="$W" VERIF_EVIDENCE_DIR="$W/_evidence" VERIF_REPLAY_DIR="$W/_replays" VERIF_WORK="$W/_work" ./check "$id" --tier "${VERIF_TIER:-quick}" > "work/mut_${id}_$$.log" 2>&1
  echo "$id exit=$? :: $(grep -c '^VIOLATION' work/mut_${id}_$$.log) violations :: $(tail -1 work/mut_${id}_$$.log)"
  grep -A1 '^VIOLATION' "work/mut_${id}_$$.log" | head -6
done
git -C /repo worktree remove --force "$W"
