#!/bin/sh
# usage: tools/try_mutant.sh <patch.diff> <ID> [<ID>...]   - applies a seeded change to /repo, runs the quick checks, reverts.
P="$1"; shift
cd /repo || exit 2
git diff --quiet || { echo "/repo not clean"; exit 2; }
git apply "$P" || { echo "patch does not apply"; exit 2; }
cd /verif
for id in "$@"; do
  ./check "$id" --tier quick > "work/mut_$id.log" 2>&1
  echo "$id exit=$? :: $(grep -c '^VIOLATION' work/mut_$id.log) violations :: $(tail -1 work/mut_$id.log)"
  grep -A1 '^VIOLATION' "work/mut_$id.log" | head -6
done
git -C /repo checkout -- .
