#!/usr/bin/env python3
"""Runs the repository's baseline test command (guard off) and checks every stable_pass test of
/root/.vp/BASELINE.json still passes.  Usage: baseline_cmp.py [-n N]"""
import json, subprocess, sys, tempfile, os
import xml.etree.ElementTree as ET
n = sys.argv[sys.argv.index("-n") + 1] if "-n" in sys.argv else None
base = json.load(open("/root/.vp/BASELINE.json"))
xml = tempfile.mktemp(suffix=".xml")
cmd = ["/venv/bin/python", "-m", "pytest", "-q", "-p", "no:cacheprovider", "--timeout=900",
       "--continue-on-collection-errors", "--junitxml=" + xml] + (["-n", n] if n else [])
env = {k: v for k, v in os.environ.items() if k != "PYTEAL_VERIF"}
subprocess.run(cmd, cwd="/repo", env=env, stdout=subprocess.DEVNULL, stderr=subprocess.DEVNULL)
passed = set()
for tc in ET.parse(xml).getroot().iter("testcase"):
    if not any(ch.tag in ("failure", "error", "skipped") for ch in tc):
        passed.add(tc.get("classname") + "::" + tc.get("name"))
os.remove(xml)
missing = [t for t in base["stable_pass"] if t not in passed]
print("stable_pass: %d, passing now: %d, missing: %d" % (len(base["stable_pass"]), len(passed), len(missing)))
for t in missing[:20]:
    print("  MISSING", t)
sys.exit(1 if missing else 0)
