"""C11 - compilation is deterministic and independent of process history.

design level: spec/Process.tla models PyTeal's process-global state (the class-level frame marker consulted by ABI value
constructors, instances built under it) with the API calls as actions; TLC explores every history up to MaxDepth and
checks HistoryIndependence and MarkerRestored (with RestoreOnException = TRUE, the implementation as it is now; the
FALSE variant must violate both - the properties are not vacuous).
spec -> code: the histories TLC generates from Process.tla (exhaustive to depth 3, -simulate walks beyond) are replayed in
a real interpreter, one forked child per history: build / compile (twice) / failing compile / unrelated allocations.
code -> spec: every recorded event carries what was observed (marker is None; the TEAL equals the TEAL of the same call in
a fresh process, itself identical under several hash seeds); spec/ProcessTrace.tla consumes the trace event by event
and accepts it iff every observation is what Process.tla allows."""
import os
import random
import sys
from concurrent.futures import ThreadPoolExecutor

sys.path.insert(0, os.path.dirname(os.path.abspath(__file__)))
import common  # noqa: E402
import procreplay  # noqa: E402
import tlc  # noqa: E402

OPTS = {"abisub": ["v8", "v8nofp", "v6"], "router": ["v6", "v8"], "router1": ["v6", "v8"]}


def explore(restore, depth, name, emit=False, simulate=None, seed=None, cleans=True, strict=False):
    wd = tlc.workdir("process_" + name)
    cfg = "SPECIFICATION Spec\nCONSTANTS RestoreOnException = %s\nRouterCleansOnException = %s\nMaxDepth = %d\nINVARIANT HistoryIndependence%s\nINVARIANT MarkerRestored\n%sCHECK_DEADLOCK FALSE\n" % (
        "TRUE" if restore else "FALSE", "TRUE" if cleans else "FALSE", depth, "Strict" if strict else "", "CONSTRAINT Emit\n" if emit else "")
    return tlc.run_tlc("Process", cfg, wd, workers=4 if not simulate else 1, timeout=900, xss="16m", simulate=simulate, depth=depth + 1 if simulate else None, seed=seed)


def histories(res):
    """{history: coverage signature of its last transition (Process.tla Sig)}"""
    out = {}
    for line in res.out.splitlines():
        if line.startswith('"H|'):
            h, sig = line[3:-1].split("|")
            out[h] = sig
    return out


def cover(hmap, rnd, per_sig, fill):
    """at least per_sig histories for every signature TLC produced, then `fill` more at random"""
    by = {}
    for h in sorted(hmap):
        by.setdefault(hmap[h], []).append(h)
    chosen = set()
    for sig in sorted(by):
        chosen.update(rnd.sample(by[sig], min(per_sig, len(by[sig]))))
    rest = sorted(set(hmap) - chosen)
    chosen.update(rnd.sample(rest, min(fill, len(rest))))
    return sorted(chosen), len(by)


def _replay(h):
    return procreplay.run_history_forked(h.split(","))


def main():
    chk = common.Check("C11")
    tier, seed = common.tier(), common.seed()
    rnd = random.Random(seed)
    # (1) design level
    ok = explore(True, 5 if tier == "quick" else 6, "design")
    chk.add_tlc(ok)
    if ok.error or ok.invariant_violated:
        chk.machinery_failure("Process.tla (restoring implementation) violates %s / %s" % (ok.invariant_violated, ok.error))
    bad = explore(False, 4, "design_norestore")
    chk.add_tlc(bad)
    if not bad.invariant_violated:
        chk.machinery_failure("Process.tla without restore does not violate the invariants: the properties are vacuous")
    dirty = explore(True, 4, "design_noclean", cleans=False)
    chk.add_tlc(dirty)
    if dirty.invariant_violated != "HistoryIndependence":
        chk.machinery_failure("Process.tla with a Router that does not clean up after a failed attempt does not violate HistoryIndependence (%s)" % dirty.invariant_violated)
    strict = explore(True, 4, "design_strict", strict=True)
    chk.add_tlc(strict)
    if strict.invariant_violated == "HistoryIndependenceStrict":
        chk.report("A19/router-recompile-renumbers-slots", "design level: Process.tla, which models the Router's cached declarations and counter rewind as they are, "
                   "violates the property as stated (re-compiling a Router after other allocations, or a Router with several methods)", {"level": "design", "invariant": "HistoryIndependenceStrict"})
    # (2) histories
    hs, nsig = [], {}
    for depth in (2, 3):
        g = explore(True, depth, "hist%d" % depth, emit=True)
        chk.add_tlc(g)
        sel, n = cover(histories(g), rnd, 1 if tier == "quick" else 4, (0 if depth == 2 else 120) if tier == "quick" else 3000)
        hs += sel
        nsig[depth] = n
    sim = explore(True, 6 if tier == "quick" else 8, "sim", emit=True, simulate="num=%d" % (150 if tier == "quick" else 3000), seed=seed)
    chk.add_tlc(sim)
    hsim = sorted(histories(sim))
    hs += rnd.sample(hsim, min(len(hsim), 100 if tier == "quick" else 3000))
    if tier == "thorough":
        g4 = explore(True, 4, "hist4", emit=True)
        chk.add_tlc(g4)
        sel, n = cover(histories(g4), rnd, 2, 3000)
        hs += sel
        nsig[4] = n
    hs = sorted(set(hs))
    if not hs:
        chk.machinery_failure("no histories generated: %s" % g.out[-800:])
    # (3) fresh-process references, identical under several hash seeds
    fresh = {}
    kinds = ["plain", "subs", "abimain", "abisub", "router", "router1", "tmpl", "itxn"]
    pairs = [(k, o) for k in kinds for o in OPTS.get(k, ["v6", "v9"])]
    with ThreadPoolExecutor(max_workers=12) as ex:
        results = list(ex.map(lambda ko: [procreplay.fresh(ko[0], ko[1], hs_) for hs_ in (0, 1, seed + 2)], pairs))
    for (k, o), texts in zip(pairs, results):
        if len(set(texts)) != 1:
            chk.report("C11/hash-seed-dependence/%s/%s" % (k, o), "compiling %s at %s in fresh processes under different hash seeds gives different TEAL" % (k, o),
                       {"kind": k, "opt": o, "texts": texts})
        fresh[(k, o)] = texts[0]
    # (4) replay + trace validation
    import multiprocessing as mp
    with mp.get_context("fork").Pool(14) as pool:          # every history still runs in a forked child of its own
        traces = pool.map(_replay, hs, chunksize=4)
    batch = []
    for h, tr in zip(hs, traces):
        if isinstance(tr, dict):
            chk.machinery_failure("replay of %s failed: %s" % (h, tr))
            continue
        evs = []
        for ev in tr:
            same = 1
            if ev["act"] == "compile" and ev["cls"] == "teal":
                same = 1 if ev["text"] == fresh[(ev["p"], ev["o"])] else 0
            evs.append({"act": ev["act"], "p": ev["p"], "o": ev["o"], "cls": ev["cls"], "same": same, "marker_none": ev["marker_none"], "adv": ev["adv"]})
        batch.append(evs)
    wd = tlc.workdir("ptrace")
    bf = os.path.join(wd, "batch.json")
    tlc.dump_json(bf, batch)
    cfg = "SPECIFICATION TSpec\nCONSTANTS RestoreOnException = TRUE\nRouterCleansOnException = TRUE\nMaxDepth = 99\nCHECK_DEADLOCK FALSE\n"
    tr = tlc.run_tlc("ProcessTrace", cfg, wd, env={"BATCH_FILE": bf}, workers=8, timeout=1500, xss="64m")
    chk.add_tlc(tr)
    if tr.error:
        chk.machinery_failure("ProcessTrace failed: %s\n%s" % (tr.error, tlc.tail(tr, 20)))
    seen = {}
    for v in tr.verdicts:
        seen[int(v[0]) - 1] = v
    if len(seen) != len(batch) and not tr.error:
        chk.machinery_failure("%d of %d trace verdicts missing" % (len(batch) - len(seen), len(batch)))
    accepted = 0
    with_a19 = []
    for idx, v in sorted(seen.items()):
        if v[1] == "accepted":
            accepted += 1
            continue
        if v[1] == "accepted-with-a19":
            accepted += 1
            with_a19.append(idx)
            continue
        at = int(v[2]) - 1
        ev = batch[idx][at]
        key = "C11/trace-rejected/%s:%s:%s/%s" % (ev["act"], ev["p"], ev["o"], "marker" if not ev["marker_none"] else ("differs" if not ev["same"] else ev["cls"]))
        chk.report(key, "history %s: event %d (%s:%s:%s) observed cls=%s same-as-fresh=%d marker_none=%d is not allowed by Process.tla" % (
            hs[idx], at + 1, ev["act"], ev["p"], ev["o"], ev["cls"], ev["same"], ev["marker_none"]), {"history": hs[idx], "event": at + 1, "trace": batch[idx]})
    if with_a19:
        chk.report("A19/router-recompile-renumbers-slots", "%d histories re-compile a Router instance where Process.tla predicts the recorded deviation (other allocations since its first "
                   "attempt, or several methods) and the TEAL was in fact numbered differently, e.g. %s" % (len(with_a19), hs[with_a19[0]]),
                   {"history": hs[with_a19[0]], "trace": batch[with_a19[0]], "count": len(with_a19)})
    chk.sample({"history": hs[0], "trace": batch[0] if batch else None})
    chk.sample({"history": hs[-1]})
    chk.cov["traces_validated_against_impl"] = len(batch)
    chk.cov["evaluations"] = sum(len(b) for b in batch)
    chk.cov["distinct_nontrivial"] = accepted
    chk.notes.update({"histories": len(hs), "transition_signatures_covered": nsig, "accepted": accepted, "fresh_references": len(fresh), "hash_seeds": [0, 1, seed + 2],
                      "design_level_states_restore": ok.distinct, "no_restore_variant_violates": bad.invariant_violated,
                      "rule": "histories = behaviours of Process.tla: at least one per transition signature (Sig) at depths 2 and 3, random others, seeded -simulate walks of depth 6/8; "
                              "non-trivial = history accepted by the trace specification event by event"})
    chk.assumptions += ["the program catalogue of harness/procreplay.py stands for 'all programs'", "fork() isolates histories from each other"]
    chk.finish()


if __name__ == "__main__":
    main()
