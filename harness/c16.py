"""C16 - WideRatio is exact or fails, never wraps.

For every factor-count combination 1..6 x 1..6 (not 1x1) the recipe WideRatio(args...) is replayed into
PyTeal and the emitted TEAL is run by TLC (spec/AVM.tla) against the big-number meaning in
spec/PyTealSem.tla ("WideRatio": exact floor quotient or failure), (i) on a scaled machine with 4-bit
words where every factor tuple is enumerated, (ii) on the 64-bit machine over boundary values."""
import os
import random
import sys

sys.path.insert(0, os.path.dirname(os.path.abspath(__file__)))
import batch  # noqa: E402
import common  # noqa: E402
import pipeline  # noqa: E402
import streams  # noqa: E402


def N(k, t="u", n=(), s="", a=(), i=()):
    return {"k": k, "t": t, "n": list(n), "s": s, "a": list(a), "i": list(i), "sp": 0}


def argu(j):
    return N("Op", "u", s="btoi", a=[N("TxnA", "b", s="ApplicationArgs", i=[j])])


def wide_prog(nn, nd):
    return {"main": N("WideRatio", "u", a=[argu(j) for j in range(nn + nd)], i=[nn]), "rt": [], "vars": [], "mode": "app"}


def dom64(n):
    return "w8" if n <= 3 else "w5" if n == 4 else "w4" if n == 5 else "w3" if n <= 7 else "w2"


def main():
    if os.environ.get("VERIF_REPLAY"):
        streams.replay_refinement("C16", os.environ["VERIF_REPLAY"])
    chk = common.Check("C16")
    tier, seed = common.tier(), common.seed()
    rnd = random.Random(seed)
    combos = [(a, b) for a in range(1, 7) for b in range(1, 7) if (a, b) != (1, 1)]
    progs = [wide_prog(a, b) for a, b in combos]
    results = pipeline.compile_all([(p, [{"v": v} for v in range(5, 11)]) for p in progs])
    # literal (constant) factors: the compiler may treat constants specially, so the same oracle is applied to programs whose
    # factors are Int literals (no arguments, one context each)
    lit_vals = [0, 1, 2, 2 ** 32, 2 ** 63, 2 ** 64 - 1]
    lit_progs = []
    for _ in range(250 if tier == "quick" else 3000):
        a, b = rnd.choice(combos)
        fs = [rnd.choice(lit_vals) for _ in range(a + b)]
        if rnd.random() < 0.5:
            fs[rnd.randrange(a)] = 0
        import tealtok as _tt
        lit_progs.append({"main": N("WideRatio", "u", a=[N("Int", n=_tt.digits(f)) for f in fs], i=[a]), "rt": [], "vars": [], "mode": "app"})
    lit_results = pipeline.compile_all([(p, [{"v": v} for v in (5, 8, 10)]) for p in lit_progs])
    cap64 = 400 if tier == "quick" else 5000
    capx = 1200 if tier == "quick" else 70000
    e64, m64, ex, mx = [], [], [], []
    exhaustive_scaled = []
    for (a, b), p, rs in zip(combos, progs, results):
        n = a + b
        if not any("teal" in r for r in rs):
            chk.report("C16/does-not-compile/%dx%d" % (a, b), "WideRatio with %d x %d factors failed to compile: %r" % (a, b, rs[0]), {"combo": [a, b]})
            continue
        # 64-bit machine, boundary values
        cx = batch.default_cx(p, args=[dom64(n)] * n)
        e, meta = pipeline.make_entry(len(e64) + 1, p, rs, cx)
        total = batch.nctx(cx, batch.DOMSIZES)
        if total > cap64:
            e["cids"] = sorted(rnd.sample(range(total), cap64))
        e64.append(e)
        m64.append(meta)
        # scaled machine (4-bit words): every tuple when it fits the cap, else a seeded sample
        dom = "x16" if n <= 3 else "x8" if n <= 4 else "x4"
        cx2 = batch.default_cx(p, args=[dom] * n)
        e2, meta2 = pipeline.make_entry(len(ex) + 1, p, rs, cx2)
        total2 = batch.nctx(cx2, batch.DOMSIZES)
        if total2 > capx:
            e2["cids"] = sorted(rnd.sample(range(total2), capx))
        elif dom == "x16":
            exhaustive_scaled.append("%dx%d" % (a, b))
        ex.append(e2)
        mx.append(meta2)
    elit, mlit = [], []
    for p, rs in zip(lit_progs, lit_results):
        e, meta = pipeline.make_entry(len(elit) + 1, p, rs, batch.default_cx(p))
        if e["texts"]:
            elit.append(e)
            mlit.append(meta)
    for name, ents, metas, base, wd in (("c16w", e64, m64, 256, 8), ("c16x", ex, mx, 16, 1), ("c16lit", elit, mlit, 256, 8)):
        verdicts, tres, errors = pipeline.run_refine(ents, name, max_steps=600, base=base, wdigits=wd, chunks=4)
        for r in tres:
            chk.add_tlc(r)
        for er in errors:
            chk.machinery_failure(er)
        missing = pipeline.expected_keys(ents) - set(verdicts)
        if missing and not errors:
            chk.machinery_failure("%s: %d verdicts missing e.g. %r" % (name, len(missing), sorted(missing)[:3]))
        streams.judge_refinement(chk, "C16", ents, metas, verdicts)
        chk.cov["evaluations"] += len(verdicts)
        chk.notes["verdict_classes_" + name] = streams.class_histogram(verdicts)
    chk.cov["traces_validated_against_impl"] = len(progs) + sum(len(e["texts"]) for e in e64)
    chk.cov["distinct_nontrivial"] = len(e64)
    chk.notes["factor_combinations"] = len(combos)
    chk.notes["scaled_exhaustive_combinations"] = exhaustive_scaled
    chk.notes["rule"] = ("all 35 factor-count combinations; scaled 4-bit machine: every factor tuple for <= 3 factors, "
                         "boundary subsets beyond; 64-bit machine: boundary values {0,1,2,2^32-1,2^32,2^32+1,2^63,2^64-1} "
                         "(smaller sets for more factors); non-trivial = combination with both exact and failing outcomes")
    chk.assumptions += ["mulw/addw/divmodw/uncover/cover/dig semantics of AVM.tla (Appendix B)",
                        "the scaled machine is sound for WideRatio because its code is width-generic"]
    chk.finish()


if __name__ == "__main__":
    main()
