"""Calibration of spec/TealLegal.tla (setup): every golden .teal file of the repository (assembled by a real algod upstream)
must be legal under the table at its own pragma version.  A failure here is a machinery failure, never a violation."""
import glob
import os
import re
import sys

sys.path.insert(0, os.path.dirname(os.path.abspath(__file__)))
import static  # noqa: E402

REPO = os.environ.get("VERIF_REPO", "/repo")
files = sorted(glob.glob(os.path.join(REPO, "**", "*.teal"), recursive=True))
entries, names = [], []
for f in files:
    text = open(f).read()
    m = re.match(r"#pragma version (\d+)", text)
    if not m:
        continue
    mode = "sig" if ("lsig" in os.path.basename(f) or "logicsig" in f.lower() or re.search(r"^arg(_\d| \d)", text, re.M)) else "app"
    entries.append({"texts": [static.text_record(text, int(m.group(1)), mode)]})
    names.append(f)
lines, res, errors = static.run(entries, "calibrate", spec="LSpec")
bad = [(names[ln[1]], ln[3]) for ln in lines if ln[0] == "L" and ln[3] != ""]
if errors or len([ln for ln in lines if ln[0] == "L"]) != len(entries):
    print("calibration could not run:", errors[:1])
    sys.exit(2)
for n, w in bad[:10]:
    print("calibration: TealLegal.tla rejects golden file %s: %s" % (n, w))
print("calibration: %d golden .teal files, %d rejected" % (len(entries), len(bad)))
sys.exit(2 if bad else 0)
