"""C02 - subroutine calls behave as function calls, including recursion.

spec -> code: behaviours of spec/Gen.tla over a catalogue of routine signatures (self / mutual / three-cycle
recursion, by-value and by-reference parameters, none / uint64 / bytes results, routine-private variables,
calls in statement position and inside operands, Return at any position).  Recursion is guarded by
construction (parameter 1 counts down), so every generated program terminates.
code -> spec: each recipe is compiled for versions 4..10 x frame_pointers {default, off} x scratch_slots
{default, flipped}; TLC runs every distinct emitted text on spec/AVM.tla for argument values 0..3 (recursion
depth 0..3) and compares with the call semantics of spec/PyTealSem.tla (arguments left to right, fresh
activation, per-activation private variables, by-reference cells) - spec/Refine.tla.  AVM.tla also checks at
every retsub that the callee left exactly its declared results above an unchanged caller stack."""
import os
import random
import sys
import time

sys.path.insert(0, os.path.dirname(os.path.abspath(__file__)))
import common  # noqa: E402
import findings  # noqa: E402
import pipeline  # noqa: E402
import streams  # noqa: E402


def main():
    if os.environ.get("VERIF_REPLAY"):
        streams.replay_refinement("C02", os.environ["VERIF_REPLAY"])
    chk = common.Check("C02")
    tier, seed = common.tier(), common.seed()
    rnd = random.Random(seed)
    t0 = time.time()
    progs, gres = streams.c02_programs(tier, seed, rnd)
    t1 = time.time()
    for r in gres:
        chk.add_tlc(r)
        if r.error:
            chk.machinery_failure("Gen run failed: %s\n%s" % (r.error, r.out[-1500:]))
    results = pipeline.compile_all([(p, streams.c02_settings(p)) for p in progs])
    entries, metas = [], []
    ncompiled = 0
    for p, rs in zip(progs, results):
        ncompiled += sum(1 for r in rs if "teal" in r)
        e, meta = pipeline.make_entry(len(entries) + 1, p, rs, pipeline.make_cx(p))
        e["strict"] = 1          # a text still running after max_steps where the source reached a verdict is reported (Refine.Compare)
        if e["texts"]:
            entries.append(e)
            metas.append(meta)
    # routines PyTeal-side declared with the ABI flavour / return type anytype (recursion, private variables): harness/handprogs.py
    import handprogs
    for name, recipe, rs in handprogs.family(tier):
        recipe["big"] = name
        progs.append(recipe)
        ncompiled += sum(1 for r in rs if "teal" in r)
        for r in rs:
            if "teal" not in r:
                chk.report("C02/does-not-compile/%s/%s" % (name, r["err"]), "%s at %s: %s" % (name, pipeline.settings_tag(r["st"]), r.get("msg")), {"what": name, "st": r["st"]})
        e, meta = pipeline.make_entry(len(entries) + 1, recipe, rs, pipeline.make_cx(recipe))
        e["strict"] = 1
        if e["texts"]:
            entries.append(e)
            metas.append(meta)
    t2 = time.time()
    verdicts, tres, errors = pipeline.run_refine(entries, "c02", max_steps=3000)
    t3 = time.time()
    chk.notes["phase_seconds"] = {"generate": round(t1 - t0, 1), "replay_compile": round(t2 - t1, 1), "tlc_validate": round(t3 - t2, 1)}
    for r in tres:
        chk.add_tlc(r)
    for e in errors:
        chk.machinery_failure(e)
    missing = pipeline.expected_keys(entries) - set(verdicts)
    if missing and not errors:
        chk.machinery_failure("%d verdicts missing, e.g. %r" % (len(missing), sorted(missing)[:3]))
    streams.judge_refinement(chk, "C02", entries, metas, verdicts, ghost=True,
                             classify=lambda e, ms, k, v: findings.classify_c02(e, ms, k, v))
    depth = {}
    for v in verdicts.values():
        depth[v[8]] = depth.get(v[8], 0) + 1
    chk.cov["traces_validated_against_impl"] = len(progs) + ncompiled
    chk.cov["evaluations"] = len(verdicts)
    chk.notes.update({"recipes": len(progs), "compilations_succeeded": ncompiled,
                      "distinct_texts": sum(len(e["texts"]) for e in entries),
                      "retsubs_executed_histogram": {k: depth[k] for k in sorted(depth, key=lambda x: int(x))[:12]},
                      "rule": "recipes enumerated by TLC from spec/Gen.tla per routine-signature catalogue entry (BFS, sampled to a cap); "
                              "non-trivial = distinct emitted instruction stream whose run executed a call"})
    chk.assumptions += ["AVM.tla callsub/retsub/proto/frame_dig/frame_bury semantics (DESIGN.md Appendix B)",
                        "recursion depth <= 3 (argument domain 0..3), program size bounded"]
    chk.finish()


if __name__ == "__main__":
    main()
