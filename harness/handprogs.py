"""Hand-built program family that the recipe language of spec/Gen.tla cannot express on the PyTeal side: routines declared
with the ABI flavour (ABIReturnSubroutine with an `output`) or with return type anytype, in self / mutual recursion and
with routine-private variables.  Their SOURCE meaning is that of the plain routines of the recipe given next to each
(spec/PyTealSem.tla is the oracle as everywhere else); only the PyTeal construction differs.

family() -> [(name, recipe, results)], results = list of compile results ({"teal"| "err", "st": setting}) as pipeline.compile_all gives."""
import os
import sys

sys.path.insert(0, os.path.dirname(os.path.abspath(__file__)))
import replay  # noqa: E402
from streams import N, argu  # noqa: E402

pt = replay.pt
abi = pt.abi
U64 = pt.TealType.uint64


def I(v):
    return N("Int", n=[] if v == 0 else [v])


def P(j):
    return N("PVal", "u", i=[j])


def Op(s, *a):
    return N("Op", "u", s=s, a=list(a))


def Call(rid, *a, t="u"):
    return N("Call", t, a=list(a), i=[rid])


def arg():
    return pt.Btoi(pt.Txn.application_args[0])


# ---- A: self recursion of an ABI-returning routine that keeps a private variable across the call -------------------------
def recipe_tri():
    body = N("Seq", "n", a=[N("Store", "n", a=[Op("*", P(1), I(10))], i=[1]),
                            N("If", "n", a=[Op("==", P(1), I(0)), N("Return", "n", a=[I(0)])]),
                            N("Return", "n", a=[Op("+", N("Load", "u", i=[1]), Call(1, Op("-", P(1), I(1))))])])
    return {"main": Call(1, argu(0)), "rt": [{"pk": ["v"], "ret": "u", "body": body, "locals": [1]}],
            "vars": [{"id": 1, "t": "u", "slot": -1}], "mode": "app", "nvars": 1}


def build_tri():
    @pt.ABIReturnSubroutine
    def tri(n: pt.Expr, *, output: abi.Uint64) -> pt.Expr:
        mine = pt.ScratchVar(U64)
        rec = abi.Uint64()
        return pt.Seq(mine.store(n * pt.Int(10)),
                      pt.If(n == pt.Int(0)).Then(output.set(pt.Int(0))).Else(pt.Seq(rec.set(tri(n - pt.Int(1))), output.set(mine.load() + rec.get()))))
    r = abi.Uint64()
    return pt.Seq(r.set(tri(arg())), pt.Return(r.get()))


# ---- B: two parameters (ABI value, plain expression), call nested in an operand ---------------------------------------------
def recipe_weigh():
    body = N("Seq", "n", a=[N("Store", "n", a=[Op("*", P(1), P(2))], i=[1]),
                            N("If", "n", a=[Op("==", P(2), I(0)), N("Return", "n", a=[I(0)])]),
                            N("Return", "n", a=[Op("+", N("Load", "u", i=[1]), Call(1, P(1), Op("-", P(2), I(1))))])])
    return {"main": Op("+", Call(1, I(7), argu(0)), I(1)), "rt": [{"pk": ["v", "v"], "ret": "u", "body": body, "locals": [1]}],
            "vars": [{"id": 1, "t": "u", "slot": -1}], "mode": "app", "nvars": 1}


def build_weigh():
    @pt.ABIReturnSubroutine
    def weigh(a: abi.Uint64, k: pt.Expr, *, output: abi.Uint64) -> pt.Expr:
        mine = pt.ScratchVar(U64)
        rec = abi.Uint64()
        return pt.Seq(mine.store(a.get() * k),
                      pt.If(k == pt.Int(0)).Then(output.set(pt.Int(0))).Else(pt.Seq(rec.set(weigh(a, k - pt.Int(1))), output.set(mine.load() + rec.get()))))
    seven, r = abi.Uint64(), abi.Uint64()
    return pt.Seq(seven.set(pt.Int(7)), r.set(weigh(seven, arg())), pt.Return(r.get() + pt.Int(1)))


# ---- C: mutual recursion between an ABI-returning routine and a plain routine without result, both with private variables ----
def recipe_mutual():
    helper = N("Seq", "n", a=[N("Store", "n", a=[Op("+", P(1), I(100))], i=[1]),
                              N("If", "n", a=[P(1), N("Log", "n", a=[N("Op", "b", s="itob", a=[Op("+", Call(2, Op("-", P(1), I(1))), N("Load", "u", i=[1]))])])])])
    count = N("Seq", "n", a=[N("Store", "n", a=[Op("*", P(1), I(3))], i=[2]), Call(1, P(1), t="n"),
                             N("Return", "n", a=[Op("+", N("Load", "u", i=[2]), I(1))])])
    return {"main": Call(2, argu(0)), "rt": [{"pk": ["v"], "ret": "n", "body": helper, "locals": [1]}, {"pk": ["v"], "ret": "u", "body": count, "locals": [2]}],
            "vars": [{"id": 1, "t": "u", "slot": -1}, {"id": 2, "t": "u", "slot": -1}], "mode": "app", "nvars": 2}


def build_mutual():
    fwd = {}

    @pt.Subroutine(pt.TealType.none)
    def helper(n):
        mine = pt.ScratchVar(U64)
        r = abi.Uint64()
        return pt.Seq(mine.store(n + pt.Int(100)), pt.If(n).Then(pt.Seq(r.set(fwd["count"](n - pt.Int(1))), pt.Log(pt.Itob(r.get() + mine.load())))))

    @pt.ABIReturnSubroutine
    def count(n: pt.Expr, *, output: abi.Uint64) -> pt.Expr:
        mine = pt.ScratchVar(U64)
        return pt.Seq(mine.store(n * pt.Int(3)), helper(n), output.set(mine.load() + pt.Int(1)))
    fwd["count"] = count
    r = abi.Uint64()
    return pt.Seq(r.set(count(arg())), pt.Return(r.get()))


# ---- D: a routine declared with return type anytype ------------------------------------------------------------------------
def recipe_any():
    body = N("Seq", "n", a=[N("If", "n", a=[P(1), N("Return", "n", a=[Op("+", P(1), I(1))])]), N("Return", "n", a=[I(5)])])
    return {"main": Op("+", Call(1, argu(0)), Call(1, I(0))), "rt": [{"pk": ["v"], "ret": "u", "body": body, "locals": []}], "vars": [], "mode": "app", "nvars": 0}


def build_any():
    @pt.Subroutine(pt.TealType.anytype)
    def anyf(x):
        return pt.Seq(pt.If(x).Then(pt.Return(x + pt.Int(1))), pt.Return(pt.Int(5)))
    return anyf(arg()) + anyf(pt.Int(0))


PROGRAMS = [("abi-output self recursion with a private variable", recipe_tri, build_tri),
            ("abi-output recursion, (abi value, expression) parameters", recipe_weigh, build_weigh),
            ("mutual recursion abi-output / plain none routine with private variables", recipe_mutual, build_mutual),
            ("anytype routine", recipe_any, build_any)]


def settings(tier):
    out = []
    for v in ((6, 8, 10) if tier == "quick" else (5, 6, 7, 8, 9, 10)):
        for ss in (False, True):
            out.append({"v": v, "ss": ss})
            if v >= 8:
                out.append({"v": v, "ss": ss, "fp": False})
    return out


def _one(job):
    pi, st = job
    # PyTeal evaluates a self-recursive ABI routine until Python's recursion limit stops it: with the default limit one
    # compilation takes about a minute, the emitted text does not depend on the limit
    old = sys.getrecursionlimit()
    sys.setrecursionlimit(320)
    try:
        replay.reset_globals()
        ast = PROGRAMS[pi][2]()
        opt = pt.OptimizeOptions(scratch_slots=st.get("ss"), frame_pointers=st.get("fp"))
        r = {"teal": pt.compileTeal(ast, pt.Mode.Application, version=st["v"], optimize=opt)}
    except replay.PYTEAL_ERRORS as e:
        r = {"err": type(e).__name__, "pyteal_error": True, "msg": str(e)[:300]}
    except Exception as e:  # noqa: BLE001
        r = {"err": type(e).__name__, "pyteal_error": False, "msg": str(e)[:300]}
    finally:
        sys.setrecursionlimit(old)
    r["st"] = st
    return r


def family(tier):
    import multiprocessing as mp
    sets = settings(tier)
    jobs = [(pi, st) for pi in range(len(PROGRAMS)) for st in sets]
    with mp.get_context("fork").Pool(12) as pool:
        res = pool.map(_one, jobs, chunksize=1)
    out = []
    for pi, (name, mk_recipe, _) in enumerate(PROGRAMS):
        out.append((name, mk_recipe(), res[pi * len(sets):(pi + 1) * len(sets)]))
    return out
