"""Fills the generator cache (work/gencache) with the quick-tier behaviours of spec/Gen.tla, so that the checks spend
their time on replay and validation.  The cache is keyed by the digest of the specification and its constants."""
import os
import random
import sys
import time

sys.path.insert(0, os.path.dirname(os.path.abspath(__file__)))
import streams  # noqa: E402

t0 = time.time()
n = 0
for fn in (streams.c01_programs, streams.c02_programs, streams.c03_programs, streams.c17_programs, streams.c20_programs):
    progs, res = fn("quick", 0, random.Random(0))
    bad = [r for r in res if r.error]
    if bad:
        print("pregen: generator failed:", bad[0].error, bad[0].out[-800:])
        sys.exit(2)
    n += len(res)
print("pregen: %d generator runs cached in %.0fs" % (n, time.time() - t0))
