"""C14 - inner method calls are marshalled per ARC-4.

spec -> code: the signature catalogue of the C09 check (0..17 plain parameters, reference and transaction parameters in any
order); for each signature and sample index spec/CallGen.tla computes what an ARC-4 client sends.  The harness builds
InnerTxnBuilder.ExecuteMethodCall(app_id, method_signature, args) with plain arguments given as ABI values set to
the sample values (or as already encoded byte expressions), reference arguments as ABI reference-typed expressions
and transaction arguments as field dictionaries.
code -> spec: TLC runs the emitted TEAL on spec/AVM.tla and compares the submitted inner group with the expected
behaviour (spec/Refine.tla, `itxns`): preceding transactions first, then the application call whose ApplicationArgs
are the selector followed by exactly CallGen's argument list (tuple packing from the 15th), Accounts / Assets /
Applications in order with the ARC-4 index bytes.  Arguments whose type does not fit the signature must be rejected
when the expression is built."""
import os
import random
import sys

sys.path.insert(0, os.path.dirname(os.path.abspath(__file__)))
import abiprog  # noqa: E402
import abitypes  # noqa: E402
import batch  # noqa: E402
import c09  # noqa: E402
import callgen  # noqa: E402
import common  # noqa: E402
import pipeline  # noqa: E402
import tealtok  # noqa: E402
from findings import classify_c14  # noqa: E402
from streams import N  # noqa: E402

pt = abitypes.pt
abi = pt.abi
TXNTYPE = {1: pt.TxnType.Payment, 2: pt.TxnType.KeyRegistration, 3: pt.TxnType.AssetConfig, 4: pt.TxnType.AssetTransfer,
           5: pt.TxnType.AssetFreeze, 6: pt.TxnType.ApplicationCall}


def F(name, node):
    return N("ItxField", "n", s=name, a=[node])


def I(n):
    return N("Int", n=callgen.digits(n))


def BY(bs):
    return N("Bytes", "b", n=list(bs))


EXTRA_ACCT = [99] * 32


def expected(sel, out, extra=False):
    body = [N("ItxBegin", "n")]
    for q, te in enumerate(out["txns"]):
        body += [F("TypeEnum", I(te)), F("Amount", I(1000 + q)), N("ItxNext", "n")]
    body += [F("TypeEnum", I(6)), F("ApplicationID", I(77))]
    body += [F("Accounts", BY(a)) for a in out["accounts"]]
    body += [F("Applications", I(a)) for a in out["apps"]]
    body += [F("Assets", I(a)) for a in out["assets"]]
    body += [F("ApplicationArgs", BY(sel))] + [F("ApplicationArgs", BY(a)) for a in out["appargs"]]
    if extra:      # user-supplied extra fields come last: array fields are appended after what the arguments need
        body += [F("Accounts", BY(EXTRA_ACCT)), F("Fee", I(0)), F("Note", BY(b"n")), F("Assets", I(4242))]
    body += [N("ItxSubmit", "n"), N("Int", n=[1])]
    return {"main": N("Seq", "u", a=body), "rt": [], "vars": [], "mode": "app"}


def call_program(ps, out, sigstr, style):
    stmts, args = [], []
    counts = {"account": 0, "asset": 0, "application": 0}
    tq = 0
    for j, p in enumerate(ps):
        if p["k"] == "txn":
            args.append({pt.TxnField.type_enum: TXNTYPE[out["txns"][tq]], pt.TxnField.amount: pt.Int(1000 + tq)})
            tq += 1
        elif p["k"] == "ref":
            counts[p["s"]] += 1
            c = counts[p["s"]]
            args.append({"account": lambda: pt.Bytes(bytes(out["accounts"][c - 1])), "asset": lambda: pt.Int(out["assets"][c - 1]),
                         "application": lambda: pt.Int(out["apps"][c - 1])}[p["s"]]())
        else:
            x = abiprog.build_value(p, out["plainvals"][j], stmts)
            args.append(x if style != "encoded" else x.encode())
    extra = None
    if style == "extra":
        # user-supplied extra fields: scalars are set, array fields are appended after the entries the arguments need
        extra = {pt.TxnField.fee: pt.Int(0), pt.TxnField.note: pt.Bytes("n"), pt.TxnField.accounts: [pt.Bytes(bytes(EXTRA_ACCT))],
                 pt.TxnField.assets: [pt.Int(4242)]}
    call = pt.InnerTxnBuilder.ExecuteMethodCall(app_id=pt.Int(77), method_signature=sigstr, args=args, extra_fields=extra)
    return pt.Seq(*stmts, call, pt.Int(1))


_TXN = {"pay": "Payment", "axfer": "AssetTransfer", "appl": "ApplicationCall"}


def ill_typed(chk, rnd):
    import c19
    types, gres = abitypes.gen("assign", 0, "c14ill")
    chk.add_tlc(gres)
    if gres.error:
        chk.machinery_failure("ARC4Gen failed: " + gres.error + gres.out[-800:])
    specs = [abitypes.to_spec(t["t"]) for t in types]

    def attempt(sig, args):
        try:
            pt.InnerTxnBuilder.MethodCall(app_id=pt.Int(1), method_signature=sig, args=args)
            return 1
        except abitypes.replay.PYTEAL_ERRORS:
            return 0
        except (TypeError, AttributeError, KeyError, ValueError) as e:      # refusing with a Python error is still refusing (C20 judges the class)
            return 0
    entries, descr = [], []
    for j, tb in enumerate(types):
        sig = "f(%s)void" % tb["sig"]
        for i, ta in enumerate(types):
            k = ta["t"]["k"]
            if k == "txn":
                if ta["t"]["s"] not in _TXN:
                    continue
                arg, argk = {pt.TxnField.type_enum: getattr(pt.TxnType, _TXN[ta["t"]["s"]])}, "txn"
            else:
                arg, argk = specs[i].new_instance(), ("refobj" if k == "ref" else "abi")
            entries.append({"site": "itxn", "a": ta["t"], "b": tb["t"], "argk": argk, "built": attempt(sig, [arg])})
            descr.append("%s passed for %s" % (ta["sig"], sig))
        for argk, mk in (("bytes", lambda: [pt.Bytes("a")]), ("uint", lambda: [pt.Int(1)]), ("other", lambda: [5]), ("other", lambda: ["a"]),
                         ("count", lambda: []), ("count", lambda: [pt.Bytes("a"), pt.Bytes("a")])):
            entries.append({"site": "itxn", "a": tb["t"], "b": tb["t"], "argk": argk, "built": attempt(sig, mk())})
            descr.append("%s argument %r passed for %s" % (argk, [str(x) for x in mk()], sig))
    verdicts, tres, errors = c19.run_assign(entries, "c14ill")
    for r in tres:
        chk.add_tlc(r)
    for e in errors:
        chk.machinery_failure(e)
    hist = {}
    for idx, c in sorted(verdicts.items()):
        hist[c] = hist.get(c, 0) + 1
        if not c.startswith("ok"):
            chk.report("C14/%s/%s" % (c, descr[idx]), "%s: accepted when the inner call was built although it does not fit the signature" % descr[idx], {"entry": entries[idx]})
    chk.notes["ill_typed_attempts"] = {"attempts": len(entries), "verdicts": hist}
    if not hist.get("ok-fits") or not hist.get("ok-rejected"):
        chk.machinery_failure("ill-typed attempt stream is degenerate: %r" % hist)
    return hist.get("ok-rejected", 0)


def main():
    if os.environ.get("VERIF_REPLAY"):
        print("replay: re-run ./check C14 (programs are rebuilt from the signature catalogue)")
        sys.exit(0)
    chk = common.Check("C14")
    tier, seed = common.tier(), common.seed()
    rnd = random.Random(seed)
    cat = [ps for ps in c09.catalogue(tier, rnd) if sum(1 for p in ps if p["k"] == "txn") <= 15]
    reqs = [{"params": ps, "vj": vj} for ps in cat for vj in ((0, 1) if tier == "quick" else (0, 1, 2, 3))]
    outs, gres = callgen.run(reqs, "c14")
    chk.add_tlc(gres)
    if gres.error or any(o is None for o in outs):
        chk.machinery_failure("CallGen failed: %s %s" % (gres.error, gres.out[-1500:]))
        chk.finish()
    versions = (6, 8) if tier == "quick" else (6, 7, 8, 9, 10)
    entries, metas, descr = [], [], []
    for req, out in zip(reqs, outs):
        ps = req["params"]
        sigstr = "echo(%s)string" % ",".join(c09.abitypes_sig(p) for p in ps)
        sel = tealtok.selector(sigstr)
        for style in ("abi", "encoded", "extra"):
            if style == "encoded" and not any(p["k"] not in ("ref", "txn") for p in ps):
                continue
            rs = []
            try:
                for v in versions:
                    r = abiprog.compile_ast(call_program(ps, out, sigstr, style), v)
                    r["st"] = {"v": v}
                    rs.append(r)
                    if "teal" not in r:
                        chk.report("C14/does-not-compile/%s" % r["err"], "%s at v%d: %s" % (sigstr, v, r.get("msg")), {"sig": sigstr})
            except abitypes.replay.PYTEAL_ERRORS as e:
                chk.report("C14/build-rejected/%s" % type(e).__name__, "well-typed inner call %s rejected: %s" % (sigstr, e), {"sig": sigstr})
                continue
            recipe = expected(sel, out, style == "extra")
            e, meta = pipeline.make_entry(len(entries) + 1, recipe, rs, batch.default_cx(recipe))
            if e["texts"]:
                entries.append(e)
                metas.append(meta)
                descr.append("%s values#%d %s" % (sigstr, req["vj"], style))
    # arguments that do not fit the signature are rejected at build time: every ordered pair of the 'assign' universe
    # (value type x parameter type) plus plain expressions / non-expressions / wrong argument counts, judged by Assign.tla
    bad = ill_typed(chk, rnd)
    verdicts, tres, errors = pipeline.run_refine(entries, "c14", max_steps=30000, chunks=8, workers_per=2)
    for r in tres:
        chk.add_tlc(r)
    for er in errors:
        chk.machinery_failure(er)
    missing = pipeline.expected_keys(entries) - set(verdicts)
    if missing and not errors:
        chk.machinery_failure("%d verdicts missing e.g. %r" % (len(missing), sorted(missing)[:3]))
    good = set()
    for (idx, cid, k), v in sorted(verdicts.items()):
        if v[3] == "ok":
            good.add(descr[idx].split(" values#")[0])
        elif v[3] != "inconclusive":
            nargs = len(entries[idx]["recipe"]["main"]["a"])
            key = classify_c14(descr[idx], v, entries[idx]["recipe"]) or "C14/%s/%s" % (v[3], descr[idx].split(" values#")[0])
            chk.report(key, "%s compiled as %s: convention says %s, TEAL run %s" % (descr[idx], ",".join(metas[idx][k - 1]["tags"]), v[4], v[5]),
                       {"what": descr[idx], "st": metas[idx][k - 1]["st"], "verdict": v, "text": metas[idx][k - 1]["text"][:8000], "expected": entries[idx]["recipe"]})
    if entries:
        chk.sample({"what": descr[0], "teal": metas[0][0]["text"][:600]})
        chk.sample({"what": descr[-1]})
    chk.cov["traces_validated_against_impl"] = sum(len(e["texts"]) for e in entries)
    chk.cov["evaluations"] = len(verdicts)
    chk.cov["distinct_nontrivial"] = len(good)
    chk.notes.update({"signatures": len(cat), "inner_call_programs": len(entries), "ill_typed_rejected": bad,
                      "inconclusive": sum(1 for v in verdicts.values() if v[3] == "inconclusive"),
                      "rule": "signature catalogue of C09 x sample indices x argument style; non-trivial = distinct signature whose submitted inner group "
                              "equals the client-side convention"})
    chk.assumptions += ["itxn_begin/field/next/submit semantics of AVM.tla incl. array-field append and the 16-argument limit", "CallGen.tla"]
    chk.finish()


if __name__ == "__main__":
    main()
