"""Replay of specification behaviours (recipes) into the real PyTeal library.

A recipe is the JSON form of the uniform node records of spec/PyTealSem.tla / spec/Gen.tla:
  node    = {k, t, n, s, a, i, sp}
  program = {main: node, rt: [routine], vars: [{t, slot}], mode: "app"|"sig"}
  routine = {pk: ["v"|"r"], ret: "n"|"u"|"b", body: node, locals: [var ids]}
This module is glue: it calls the public constructors the recipe names, nothing else."""
import json
import os
import sys

REPO = os.environ.get("VERIF_REPO", "/repo")
sys.dont_write_bytecode = True
if REPO not in sys.path:
    sys.path.insert(0, REPO)

import pyteal as pt  # noqa: E402

PYTEAL_ERRORS = (pt.TealInputError, pt.TealCompileError, pt.TealTypeError, pt.TealInternalError,
                 pt.TealPragmaError)

TT = {"u": pt.TealType.uint64, "b": pt.TealType.bytes, "n": pt.TealType.none, "a": pt.TealType.anytype}

OPS = {
    "+": pt.Add, "-": pt.Minus, "*": pt.Mul, "/": pt.Div, "%": pt.Mod, "<": pt.Lt, ">": pt.Gt,
    "<=": pt.Le, ">=": pt.Ge, "==": pt.Eq, "!=": pt.Neq, "&&": pt.And, "||": pt.Or,
    "|": pt.BitwiseOr, "&": pt.BitwiseAnd, "^": pt.BitwiseXor, "~": pt.BitwiseNot, "!": pt.Not,
    "len": pt.Len, "itob": pt.Itob, "btoi": pt.Btoi, "exp": pt.Exp, "shl": pt.ShiftLeft,
    "shr": pt.ShiftRight, "sqrt": pt.Sqrt, "bitlen": pt.BitLen, "concat": pt.Concat,
    "getbit": pt.GetBit, "setbit": pt.SetBit, "getbyte": pt.GetByte, "setbyte": pt.SetByte,
    "b+": pt.BytesAdd, "b-": pt.BytesMinus, "b*": pt.BytesMul, "b/": pt.BytesDiv, "b%": pt.BytesMod,
    "b<": pt.BytesLt, "b>": pt.BytesGt, "b<=": pt.BytesLe, "b>=": pt.BytesGe, "b==": pt.BytesEq,
    "b!=": pt.BytesNeq, "b|": pt.BytesOr, "b&": pt.BytesAnd, "b^": pt.BytesXor, "b~": pt.BytesNot,
    "bsqrt": pt.BytesSqrt, "bzero": pt.BytesZero, "sha256": pt.Sha256, "keccak256": pt.Keccak256,
    "sha512_256": pt.Sha512_256, "sha3_256": pt.Sha3_256, "divw": pt.Divw,
    "extract_uint16": pt.ExtractUint16, "extract_uint32": pt.ExtractUint32,
    "extract_uint64": pt.ExtractUint64, "ed25519verify": pt.Ed25519Verify,
    "ed25519verify_bare": pt.Ed25519Verify_Bare,
}

# operator-overload spellings (sp = 1) where Python offers one
OVERLOAD = {
    "+": lambda a, b: a + b, "-": lambda a, b: a - b, "*": lambda a, b: a * b, "/": lambda a, b: a / b,
    "%": lambda a, b: a % b, "<": lambda a, b: a < b, ">": lambda a, b: a > b, "<=": lambda a, b: a <= b,
    ">=": lambda a, b: a >= b, "==": lambda a, b: a == b, "!=": lambda a, b: a != b,
    "|": lambda a, b: a | b, "&": lambda a, b: a & b, "^": lambda a, b: a ^ b, "~": lambda a: ~a,
    "exp": lambda a, b: a ** b,
}

_TXN_BY_ARG = {f.arg_name: f for f in pt.TxnField}
_GLOBAL_BY_ARG = {f.arg_name: f for f in pt.GlobalField}


def undigits(ds):
    n = 0
    for d in ds:
        n = n * 256 + d
    return n


def txn_access(obj, field_arg):
    f = _TXN_BY_ARG[field_arg]
    return getattr(obj, f.name)


class Builder:
    def __init__(self, prog):
        self.prog = prog
        self.vars = []
        for v in prog.get("vars", []):
            if v.get("slot", -1) >= 0:
                self.vars.append(pt.ScratchVar(TT[v["t"]], v["slot"]))
            else:
                self.vars.append(pt.ScratchVar(TT[v["t"]]))
        self.dyns = {}
        self.routines = {}
        for rid, r in enumerate(prog.get("rt", []), 1):
            self.routines[rid] = self._make_routine(rid, r)

    # -- routines --------------------------------------------------------------------------------
    def _make_routine(self, rid, r):
        names = ["p%d" % (j + 1) for j in range(len(r["pk"]))]
        ann = {"v": "pt.Expr", "r": "pt.ScratchVar"}
        sig = ", ".join("%s: %s" % (n, ann[k]) for n, k in zip(names, r["pk"]))
        src = "def r%d(%s):\n    return _body([%s])\n" % (rid, sig, ", ".join(names))
        ns = {"pt": pt, "_body": lambda params, r=r: self.build(r["body"], params, {})}
        exec(src, ns)
        fn = ns["r%d" % rid]
        return pt.Subroutine(TT[r["ret"]], name=r.get("name") or None)(fn)

    # -- expression trees ------------------------------------------------------------------------
    def build(self, node, params=(), mvs=None):
        """prog["share"]: structurally equal sub-trees of one routine are built once and the same Python object is used at
        every occurrence (a DAG instead of a tree - legal PyTeal, and what user code with a helper variable produces)"""
        if mvs is None:
            mvs = {}
        if self.prog.get("share") and node["a"] and node["k"] not in ("MV",):
            key = (json.dumps(node, sort_keys=True), tuple(id(p) for p in params))
            memo = self.__dict__.setdefault("_memo", {})
            if key not in memo:
                memo[key] = self._build(node, params, mvs)
            return memo[key]
        return self._build(node, params, mvs)

    def _build(self, node, params, mvs):
        B = lambda x: self.build(x, params, mvs)  # noqa: E731
        k, a, sp = node["k"], node["a"], node.get("sp", 0)
        if k == "Int":
            sp_s = node.get("s", "")
            if sp_s.startswith("enum:"):
                return ENUMS[sp_s[5:]]
            if sp_s.startswith("tmpl:"):
                return pt.Tmpl.Int(sp_s[5:])
            return pt.Int(undigits(node["n"]))
        if k == "Bytes":
            raw = bytes(node["n"])
            sp_s = node.get("s", "")
            if sp_s.startswith("tmpl:"):
                return pt.Tmpl.Bytes(sp_s[5:])
            if sp_s.startswith("tmpladdr:"):
                return pt.Tmpl.Addr(sp_s[9:])
            if sp_s.startswith("addr:"):
                return pt.Addr(sp_s[5:])
            if sp_s.startswith("method:"):
                return pt.MethodSignature(sp_s[7:])
            if sp_s.startswith("str:"):
                return pt.Bytes(sp_s[4:])
            if sp == 3:
                import base64
                return pt.Bytes("base32", base64.b32encode(raw).decode().rstrip("="))
            if sp == 4:                                # base32 with its padding
                import base64
                return pt.Bytes("base32", base64.b32encode(raw).decode())
            if sp == 1:
                return pt.Bytes("base16", raw.hex())
            if sp == 2:
                import base64
                return pt.Bytes("base64", base64.b64encode(raw).decode())
            return pt.Bytes(raw)
        if k == "Nop":
            return pt.Seq()
        if k == "Txn":
            return txn_access(pt.Txn, node["s"])()
        if k == "TxnA":
            return txn_access(pt.Txn, node["s"])[node["i"][0]]
        if k == "TxnAS":
            return txn_access(pt.Txn, node["s"])[B(a[0])]
        if k == "Gtxn":
            return txn_access(pt.Gtxn[node["i"][0]], node["s"])()
        if k == "GtxnA":
            return txn_access(pt.Gtxn[node["i"][0]], node["s"])[node["i"][1]]
        if k == "GtxnS":
            return txn_access(pt.Gtxn[B(a[0])], node["s"])()
        if k == "GtxnAS":
            return txn_access(pt.Gtxn[node["i"][0]], node["s"])[B(a[0])]
        if k == "GtxnSA":
            return txn_access(pt.Gtxn[B(a[0])], node["s"])[node["i"][0]]
        if k == "GtxnSAS":
            g = B(a[0])
            return txn_access(pt.Gtxn[g], node["s"])[B(a[1])]
        if k == "Global":
            return pt.Global(_GLOBAL_BY_ARG[node["s"]])
        if k == "LsigArg":
            return pt.Arg(node["i"][0])
        if k == "Op":
            args = [B(x) for x in a]
            if sp == 1 and node["s"] in OVERLOAD:
                return OVERLOAD[node["s"]](*args)
            return OPS[node["s"]](*args)
        if k == "Nary":
            return OPS[node["s"]](*[B(x) for x in a])
        if k == "Substring":
            return pt.Substring(*[B(x) for x in a])
        if k == "Extract":
            return pt.Extract(*[B(x) for x in a])
        if k == "Suffix":
            return pt.Suffix(*[B(x) for x in a])
        if k == "Replace":
            return pt.Replace(*[B(x) for x in a])
        if k == "Seq":
            kids = [B(x) for x in a]
            return pt.Seq(kids) if sp == 1 else pt.Seq(*kids)
        if k == "If":
            c = B(a[0])
            if sp == 0:
                return pt.If(c, *[B(x) for x in a[1:]])
            e = pt.If(c).Then(B(a[1]))
            cur = a[2] if len(a) > 2 else None
            while cur is not None:
                if cur["k"] == "If" and cur.get("sp", 0) == 2:
                    e = e.ElseIf(B(cur["a"][0])).Then(B(cur["a"][1]))
                    cur = cur["a"][2] if len(cur["a"]) > 2 else None
                else:
                    e = e.Else(B(cur))
                    cur = None
            return e
        if k == "Cond":
            return pt.Cond(*[[B(a[j]), B(a[j + 1])] for j in range(0, len(a), 2)])
        if k == "While":
            return pt.While(B(a[0])).Do(B(a[1]))
        if k == "For":
            return pt.For(B(a[0]), B(a[1]), B(a[2])).Do(B(a[3]))
        if k == "Break":
            return pt.Break()
        if k == "Continue":
            return pt.Continue()
        if k == "Assert":
            kw = {"comment": node["s"]} if node.get("s") else {}
            return pt.Assert(*[B(x) for x in a], **kw)
        if k == "Return":
            return pt.Return(*[B(x) for x in a])
        if k == "Approve":
            return pt.Approve()
        if k == "Reject":
            return pt.Reject()
        if k == "Err":
            return pt.Err()
        if k == "Pop":
            return pt.Pop(B(a[0]))
        if k == "Log":
            return pt.Log(B(a[0]))
        if k == "Load":
            return self.vars[node["i"][0] - 1].load()
        if k == "Store":
            return self.vars[node["i"][0] - 1].store(B(a[0]))
        if k == "Idx":
            return self.vars[node["i"][0] - 1].index()
        if k in ("DynSet", "DynLoad", "DynStore"):
            d = self.dyns.setdefault(node["i"][0], pt.DynamicScratchVar(pt.TealType.uint64))
            if k == "DynSet":
                return d.set_index(self.vars[node["i"][1] - 1])
            if k == "DynLoad":
                return d.load()
            return d.store(B(a[0]))
        if k == "PVal":
            return params[node["i"][0] - 1]
        if k == "PLoad":
            return params[node["i"][0] - 1].load()
        if k == "PStore":
            return params[node["i"][0] - 1].store(B(a[0]))
        if k == "Ref":
            return self.vars[node["i"][0] - 1]
        if k == "PRef":
            return params[node["i"][0] - 1]
        if k == "GPut":
            return pt.App.globalPut(B(a[0]), B(a[1]))
        if k == "GGet":
            return pt.App.globalGet(B(a[0]))
        if k == "GDel":
            return pt.App.globalDel(B(a[0]))
        if k == "LPut":
            return pt.App.localPut(B(a[0]), B(a[1]), B(a[2]))
        if k == "LGet":
            return pt.App.localGet(B(a[0]), B(a[1]))
        if k == "LDel":
            return pt.App.localDel(B(a[0]), B(a[1]))
        if k in _BOX:
            return getattr(pt.App, _BOX[k])(*[B(x) for x in a])
        if k == "MV":
            args = [B(x) for x in a]
            if node["s"] == "GGetEx":
                mv = pt.App.globalGetEx(*args)
            elif node["s"] == "BoxGet":
                mv = pt.App.box_get(*args)
            elif node["s"] == "BoxLen":
                mv = pt.App.box_length(*args)
            else:
                mv = LEDGER_MV[node["s"]](*args)
            mvs[node["i"][0]] = mv
            return mv
        if k == "MVHas":
            return mvs[node["i"][0]].hasValue()
        if k == "MVVal":
            return mvs[node["i"][0]].value()
        if k == "ItxBegin":
            return pt.InnerTxnBuilder.Begin()
        if k == "ItxNext":
            return pt.InnerTxnBuilder.Next()
        if k == "ItxSubmit":
            return pt.InnerTxnBuilder.Submit()
        if k == "ItxField":
            return pt.InnerTxnBuilder.SetField(_TXN_BY_ARG[node["s"]], B(a[0]))
        if k == "WideRatio":
            nn = node["i"][0]
            vals = [B(x) for x in a]
            return pt.WideRatio(vals[:nn], vals[nn:])
        if k == "Call":
            return self.routines[node["i"][0]](*[B(x) for x in a])
        if k == "Comment":
            return pt.Comment(node["s"], B(a[0]))
        if k == "Pragma":
            return pt.Pragma(B(a[0]), compiler_version=node.get("s") or ">=0.1.0")
        if k == "Nonce":
            if node.get("s"):                      # "<base>:<text>" - any base / text the user may write
                base, text = node["s"].split(":", 1)
                return pt.Nonce(base, text, B(a[0]))
            return pt.Nonce("base16", bytes(node["n"]).hex(), B(a[0]))
        raise ValueError("replay: unknown kind %r" % k)


ENUMS = {"NoOp": pt.OnComplete.NoOp, "OptIn": pt.OnComplete.OptIn, "CloseOut": pt.OnComplete.CloseOut,
         "ClearState": pt.OnComplete.ClearState, "UpdateApplication": pt.OnComplete.UpdateApplication,
         "DeleteApplication": pt.OnComplete.DeleteApplication, "pay": pt.TxnType.Payment, "keyreg": pt.TxnType.KeyRegistration,
         "acfg": pt.TxnType.AssetConfig, "axfer": pt.TxnType.AssetTransfer, "afrz": pt.TxnType.AssetFreeze,
         "appl": pt.TxnType.ApplicationCall}

_BOX = {"BoxCreate": "box_create", "BoxPut": "box_put", "BoxDel": "box_delete", "BoxExtract": "box_extract", "BoxReplace": "box_replace"}

LEDGER_MV = {
    "AssetBalance": pt.AssetHolding.balance, "AssetFrozen": pt.AssetHolding.frozen,
    "AssetTotal": pt.AssetParam.total, "AssetDecimals": pt.AssetParam.decimals,
    "AssetName": pt.AssetParam.name, "AssetUnitName": pt.AssetParam.unitName,
    "AssetManager": pt.AssetParam.manager, "AppCreator": pt.AppParam.creator,
    "AppGlobalNumUint": pt.AppParam.globalNumUint, "AcctBalance": pt.AccountParam.balance,
    "AcctAuthAddr": pt.AccountParam.authAddr,
}


def mode_of(prog):
    return pt.Mode.Application if prog.get("mode", "app") == "app" else pt.Mode.Signature


def _cause_var(b, e):
    """1-based id of the recipe variable whose load the error (or its cause chain) names, else 0."""
    seen = 0
    while e is not None and seen < 6:
        ex = getattr(e, "sourceExpr", None)
        slot = getattr(ex, "slot", None)
        if slot is not None:
            for j, v in enumerate(b.vars, 1):
                if v.slot is slot:
                    return j
        e = e.__cause__
        seen += 1
    return 0


_OPTS = {}


def compile_recipe(prog, version, scratch_slots=None, frame_pointers=None, assemble_constants=False, mode=None):
    """Returns {"teal": text} or {"err": class name, "pyteal_error": bool, "msg": str, "cvar": int}."""
    b = None
    try:
        b = Builder(prog)
        ast = b.build(prog["main"])
        # one OptimizeOptions object per setting is reused for all compilations of this worker process, the way
        # Router.compile_program reuses one for the approval and the clear-state program: compiling must not
        # leave anything behind in it (C03 / C11)
        okey = (scratch_slots, frame_pointers)
        if okey not in _OPTS:
            _OPTS[okey] = pt.OptimizeOptions(scratch_slots=scratch_slots, frame_pointers=frame_pointers)
        opt = _OPTS[okey]
        md = mode_of(prog) if mode is None else (pt.Mode.Application if mode == "app" else pt.Mode.Signature)
        teal = pt.compileTeal(ast, md, version=version, assembleConstants=assemble_constants,
                              optimize=opt)
        return {"teal": teal}
    except PYTEAL_ERRORS as e:
        return {"err": type(e).__name__, "pyteal_error": True, "msg": str(e)[:300],
                "cvar": _cause_var(b, e) if b is not None else 0}
    except Exception as e:  # noqa: BLE001  (C20 classifies these)
        return {"err": type(e).__name__, "pyteal_error": False, "msg": str(e)[:300], "cvar": 0,
                "site": _raise_site(e)}


def _raise_site(e):
    """innermost pyteal frame of a foreign exception: 'file.py:function' (used as part of finding keys)."""
    import traceback
    site = "?"
    for fs in traceback.extract_tb(e.__traceback__):
        if "/pyteal/" in fs.filename:
            site = "%s:%s" % (os.path.basename(fs.filename), fs.name)
    return site


def reset_globals():
    """Fresh-process defaults for the process-global counters (used between independent replays so that
    one replay cannot influence the next; C11 checks history independence separately)."""
    pt.ScratchSlot.nextSlotId = 256
    pt.SubroutineDefinition.nextSubroutineId = 0
