"""Program streams (Builder alphabets and bounds per tier) and the judges shared by several checks."""
import hashlib
import json
import random

import gen

CTRL_OPS = {"bz", "bnz", "b", "callsub", "retsub", "log", "app_global_put", "app_global_del", "itxn_submit",
            "store", "assert"}

# ---------------------------------------------------------------------------------------------
# alphabets
A_CONTROL = dict(Leaves=["i1", "i2", "au0"], UnOps=["!"], BinOps=["-", "<"],
                 Stmts=["Pop", "Store", "Assert", "Return", "Approve", "Reject"],
                 Ctrl=["Seq2", "If2", "If3", "While", "Break", "Continue", "VSeq", "VIf"], NVarsU=1, NVarsB=0)
A_EFFECTS = dict(Leaves=["i0", "i1", "au0", "ba", "gget"], UnOps=["itob"], BinOps=["-"],
                 Stmts=["Pop", "Log", "GPut", "GDel", "Assert2", "Return", "Err"],
                 Ctrl=["Seq2", "Seq3", "If3", "Cond2", "EmptySeq", "VSeq", "VIf"], NVarsU=0, NVarsB=0)
A_LOOPS = dict(Leaves=["i1", "au0"], UnOps=[], BinOps=["<", "+"],
               Stmts=["Pop", "Store", "Return", "Approve"],
               Ctrl=["Seq2", "Seq3", "If2", "For", "While", "Break", "Continue", "VSeq"], NVarsU=2, NVarsB=0)
A_STATE = dict(Leaves=["i1", "au0", "gget", "lget"], UnOps=[], BinOps=["+"], Stmts=["GPut", "GDel", "LPut", "LDel", "MVMacros", "LogU"],
               Ctrl=["Seq2", "Seq3", "If2", "VSeq"], NVarsU=0, NVarsB=0)
A_NEST = dict(Leaves=["i1"], UnOps=[], BinOps=[], Stmts=["LogC", "ContIf", "BrkIf"],
              Ctrl=["Seq2", "Seq3", "CWhile", "CFor", "VSeq"], NVarsU=0, NVarsB=0, NCtr=2)
A_CALLS = dict(Leaves=["i1", "au0"], UnOps=[], BinOps=["-", "<"], Stmts=["Pop", "Return"],
               Ctrl=["Seq2", "If3", "If2"], NVarsU=1, NVarsB=0)
A_WIDE = dict(Leaves=["i0", "i1", "i2", "imax", "au0", "au1", "ab0", "ba", "bb", "be", "sender", "oc", "gsize"],
              UnOps=["!", "~", "itob", "btoi", "len", "sqrt", "bitlen", "b~", "bzero", "sha256"],
              BinOps=["+", "-", "*", "/", "%", "<", ">", "<=", ">=", "&&", "||", "==", "!=", "|", "&", "^", "shl",
                      "shr", "exp", "concat", "b+", "b-", "b*", "b/", "b%", "b<", "b>", "b<=", "b>=", "b==", "b!=",
                      "b|", "b&", "b^", "getbyte", "getbit", "extract_uint16"],
              NaryOps=["+", "*", "&&", "||", "concat"], TerOps=["Substring", "Extract", "Suffix", "setbyte", "setbit"],
              Stmts=["Pop", "Log", "GPut", "Assert", "Assert2", "Return", "Approve", "Reject", "Err"],
              Ctrl=["Seq2", "Seq3", "If2", "If3", "Cond2", "While", "For", "Break", "Continue", "EmptySeq"],
              NVarsU=2, NVarsB=1)


def sample(xs, n, rnd):
    if len(xs) <= n:
        return list(xs)
    return rnd.sample(xs, n)


def finalize(prog, mode="app"):
    prog = dict(prog)
    prog["mode"] = mode
    nv = 0
    for nd in gen.prog_nodes(prog):
        if nd["k"] in ("Load", "Store", "Ref"):
            nv = max(nv, nd["i"][0])
    prog.setdefault("vars", [])
    return prog


def with_vars(prog, c):
    vs = [{"t": "u", "slot": -1}] * c.get("NVarsU", 0) + [{"t": "b", "slot": -1}] * c.get("NVarsB", 0)
    vs += [{"t": "u", "slot": -1}] * max(0, prog.get("nvars", 0) - len(vs))       # routine-private variables
    prog["vars"] = vs
    return prog


def c01_programs(tier, seed, rnd):
    """Returns (programs, TLC results of the generator runs)."""
    plans = []
    if tier == "quick":
        plans = [("control", A_CONTROL, 6, 2000), ("effects", A_EFFECTS, 6, 1200), ("loops", A_LOOPS, 6, 700),
                 ("nest", A_NEST, 8, 1300), ("optm", A_OPTM, 7, 900), ("state", A_STATE, 6, 900)]
    else:
        plans = [("control", A_CONTROL, 7, 30000), ("effects", A_EFFECTS, 7, 15000), ("loops", A_LOOPS, 7, 10000),
                 ("nest", A_NEST, 9, 12500), ("optm", A_OPTM, 8, 20000), ("state", A_STATE, 7, 12000)]
    progs, results = [], []
    for name, alpha, n, cap in plans:
        c = dict(alpha)
        c["MaxNodes"] = n
        c["SigsName"] = "none"
        rs, res = gen.run_builder(c, "c01_" + name, workers=8, timeout=1500, cap=cap, rnd=rnd)
        results.append(res)
        for p in rs:
            progs.append(with_vars(finalize(p), c))
    return progs, results


def min_version(prog):
    """lowest program version worth trying (compile attempts below it are the C04/C20 checks' business)."""
    return 2


def all_settings(prog, versions=range(2, 11)):
    return [{"v": v} for v in versions]


# ---------------------------------------------------------------------------------------------
def shape_digest(obj):
    return hashlib.sha1(json.dumps(obj, sort_keys=True).encode()).hexdigest()[:12]


def nontrivial(text_entry):
    return any(ins["op"] in CTRL_OPS for ins in text_entry["teal"])


def judge_refinement(chk, prop, entries, metas, verdicts, classify=None, ghost=False):
    """verdict fields: tid cid k clause want got ghost steps frames exits"""
    nontriv = set()
    incon = 0
    for (idx, cid, k), v in sorted(verdicts.items()):
        clause = v[3]
        e = entries[idx]
        te = e["texts"][k - 1]
        if clause == "inconclusive":
            incon += 1
            continue
        if nontrivial(te):
            nontriv.add(pipeline_key(te))
        if clause == "ok" and ghost and v[6]:
            clause = "ghost:" + v[6].split(",")[0].split(":")[0]
        if clause != "ok":
            key = None
            if classify:
                key = classify(e, metas[idx], k, v)
            if key is None:
                key = "%s/%s/%s" % (prop, clause, shape_digest(e["recipe"]))
            chk.report(key, "recipe %s compiled as %s in context %d: source meaning %s, TEAL run %s" % (
                shape_digest(e["recipe"]), ",".join(metas[idx][k - 1]["tags"]), cid, v[4], v[5]),
                {"recipe": e["recipe"], "cx": e["cx"], "cid": cid, "text": metas[idx][k - 1]["text"],
                 "settings": metas[idx][k - 1]["tags"], "st": metas[idx][k - 1]["st"], "verdict": v,
                 "vars": e.get("vars", []), "mode": e["cx"]["mode"]})
        else:
            if len(chk.cov["samples"]) < 4 and nontrivial(te):
                chk.sample({"recipe": e["recipe"], "teal": metas[idx][k - 1]["text"], "context": cid, "verdict": v[3:7]})
    chk.cov["distinct_nontrivial"] = len(nontriv)
    chk.notes["inconclusive"] = incon


def pipeline_key(te):
    import pipeline
    return pipeline.stream_key(te["teal"])


def replay_refinement(prop, path, invariant="Refines"):
    """Re-runs one recorded failing artefact: the recipe is replayed into the current PyTeal tree, compiled
    with the recorded settings, and TLC checks the property as an INVARIANT so that its counterexample
    (the AVM run up to the divergence) is printed.  Exit 1 if the violation reproduces."""
    import os
    import sys
    import pipeline
    import tlc
    d = json.load(open(path))["payload"]
    prog = {"main": d["recipe"]["main"], "rt": d["recipe"].get("rt", []), "vars": d.get("vars", []),
            "mode": d.get("mode", "app")}
    res = pipeline.compile_all([(prog, [d["st"]])])[0]
    if "teal" not in res[0]:
        print("replay: recipe no longer compiles with %r: %s" % (d["st"], res[0]))
        sys.exit(0)
    print(res[0]["teal"])
    entry, meta = pipeline.make_entry(1, prog, res, d["cx"])
    wd = tlc.workdir("replay_" + prop)
    bf = os.path.join(wd, "batch.json")
    tlc.dump_json(bf, [entry])
    cfg = ("SPECIFICATION Spec\nCONSTANTS Base = 256\nWD = 8\nMaxSteps = 3000\nINVARIANT %s\nCHECK_DEADLOCK FALSE\n"
           % invariant)
    r = tlc.run_tlc("Refine", cfg, wd, env={"BATCH_FILE": bf}, workers=1, timeout=600)
    print(tlc.tail(r, 80))
    if r.invariant_violated:
        print("VIOLATION property=%s replay=%s" % (prop, path))
        sys.exit(1)
    sys.exit(0 if not r.error else 2)


def class_histogram(verdicts):
    h = {}
    for v in verdicts.values():
        key = v[3] + ":" + v[4].split("/")[0]
        h[key] = h.get(key, 0) + 1
    return h


# ---------------------------------------------------------------------------------------------
# C20 / C17 streams
A_DEGEN = dict(Leaves=["i1", "au0"], UnOps=[], BinOps=[], Stmts=["Nop", "Store", "Approve", "Return"],
               Ctrl=["Seq2", "Seq3", "If2", "If3", "While", "For", "Break", "Continue", "EmptySeq", "VSeq"],
               NVarsU=1, NVarsB=0, InitVars=False)
# first stores inside conditional arms next to arms that leave the program, loads after the join (few alternatives, so deep)
A_INITARM = dict(Leaves=["i1", "au0"], UnOps=[], BinOps=[], Stmts=["Store", "Return", "Approve"],
                 Ctrl=["Seq2", "Seq3", "If2", "If3", "IfMixed", "Cond2", "VSeq"], NVarsU=1, NVarsB=0, InitVars=False)
A_UNINIT = dict(Leaves=["i1", "au0"], UnOps=[], BinOps=["<"], Stmts=["Pop", "Store", "Return", "Approve"],
                Ctrl=["Seq2", "Seq3", "If2", "If3", "Cond2", "While", "For", "Break", "Continue", "VSeq"],
                NVarsU=2, NVarsB=0, InitVars=False)


def N(k, t="u", n=(), s="", a=(), i=()):
    return {"k": k, "t": t, "n": list(n), "s": s, "a": list(a), "i": list(i), "sp": 0}


def argu(j):
    return N("Op", "u", s="btoi", a=[N("TxnA", "b", s="ApplicationArgs", i=[j])])


def big_programs(tier):
    """size-parametrised shapes (long straight-line code, deep nesting); the parameter is the `big` tag."""
    out = []
    sizes = [200, 400, 1000] if tier == "quick" else [200, 400, 1000, 3000]
    for n in sizes:
        out.append(("seq-%d" % n, N("Seq", "u", a=[N("Pop", "n", a=[N("Int", n=[1])]) for _ in range(n)] + [N("Int", n=[1])])))
        out.append(("assert-seq-%d" % n, N("Seq", "u", a=[N("Assert", "n", a=[argu(0)]) for _ in range(n)] + [N("Int", n=[1])])))
    # (the Json module that feeds recipes to TLC stops at 255 nesting levels = expression depth 126)
    for d in ([40, 120] if tier == "quick" else [40, 100, 120, 125]):
        e = N("Pop", "n", a=[N("Int", n=[1])])
        for _ in range(min(d // 4, 16)):      # If.type_of() is exponential in the nesting depth at construction
            e = N("If", "n", a=[argu(0), e])
        out.append(("nest-if-%d" % min(d // 4, 16), N("Seq", "u", a=[e, N("Int", n=[1])])))
        x = N("Int", n=[1])
        for _ in range(d):
            x = N("Op", "u", s="+", a=[x, N("Int", n=[1])])
        out.append(("nest-add-%d" % d, x))
        w = N("Pop", "n", a=[N("Int", n=[1])])
        for _ in range(min(d, 60)):
            w = N("While", "n", a=[argu(0), w])
        out.append(("nest-while-%d" % min(d, 60), N("Seq", "u", a=[w, N("Int", n=[1])])))
    progs = []
    for tag, main in out:
        progs.append({"main": main, "rt": [], "vars": [], "mode": "app", "big": tag})
    return progs


def c20_programs(tier, seed, rnd):
    q = tier == "quick"
    # thorough: one more node per alphabet and about three times the quick sample (a tier that takes hours is of no use)
    plans = [("control", A_CONTROL, 6 if q else 7, 800 if q else 2500),
             ("effects", A_EFFECTS, 6 if q else 7, 600 if q else 2000),
             ("loops", A_LOOPS, 6 if q else 7, 500 if q else 1500),
             ("nest", A_NEST, 8 if q else 9, 600 if q else 2000),
             ("degen", A_DEGEN, 8 if q else 9, 9000 if q else 30000),
             ("uninit", A_UNINIT, 6 if q else 7, 800 if q else 2500),
             ("initarm", A_INITARM, 9 if q else 10, 5000 if q else 15000)]
    progs, results = [], []
    for name, alpha, n, cap in plans:
        c = dict(alpha)
        c["MaxNodes"] = n
        c["SigsName"] = "none"
        rs, res = gen.run_builder(c, "c20_" + name, workers=8, timeout=1500, cap=cap, rnd=rnd)
        results.append(res)
        for p in rs:
            p = with_vars(finalize(p), c)
            if name in ("degen", "initarm"):
                p["smallgrid"] = 1          # many shapes, few settings (crashes on degenerate shapes do not depend on the version)
            progs.append(p)
    # the same programs as DAGs: structurally equal sub-trees are one shared Python object (every second program)
    progs += [dict(p, share=1) for p in progs if has_repeated_subtree(p)][::2]
    # programs with subroutines (recursion, by-reference parameters, routine-private variables - some never initialised)
    rp, rres = c02_programs(tier, seed, rnd, caps=(300, 80) if q else (1000, 300))
    for p in rp:
        p["smallgrid"] = 2
    progs += rp
    results += rres
    progs += big_programs(tier)
    return progs, results


def has_repeated_subtree(prog):
    """some non-leaf sub-tree occurs twice in one routine (only then does sharing objects change anything)"""
    import json
    for root in [prog["main"]] + [r["body"] for r in prog.get("rt", [])]:
        seen = set()
        for nd in gen.walk(root):
            if nd["a"]:
                k = json.dumps(nd, sort_keys=True)
                if k in seen:
                    return True
                seen.add(k)
    return False


def c20_known(prog, clause, site, result):
    """finding key of a recorded genuine defect when this failing case is an instance of it (by trigger), else None"""
    return None


A_UNINIT_IDX = dict(Leaves=["i1", "au0", "idx1"], UnOps=[], BinOps=["<"], Stmts=["Pop", "Store", "Return", "Approve"],
                    Ctrl=["Seq2", "Seq3", "If2", "If3", "While", "Break", "VSeq"], NVarsU=2, NVarsB=0, InitVars=False)


def c17_programs(tier, seed, rnd):
    q = tier == "quick"
    plans = [("uninit", A_UNINIT, 7 if q else 8, 3000 if q else 40000),
             ("uninit_idx", A_UNINIT_IDX, 7 if q else 8, 1500 if q else 20000),
             ("degen", A_DEGEN, 6 if q else 7, 1000 if q else 15000),
             ("initarm", A_INITARM, 9 if q else 10, 2500 if q else 40000)]
    progs, results = [], []
    for name, alpha, n, cap in plans:
        c = dict(alpha)
        c["MaxNodes"] = n
        c["SigsName"] = "none"
        rs, res = gen.run_builder(c, "c17_" + name, workers=8, timeout=1500, cap=cap, rnd=rnd)
        results.append(res)
        for p in rs:
            progs.append(with_vars(finalize(p), c))
    # the same programs with explicitly requested slot ids for every variable (every third recipe)
    import outcomes
    progs += [outcomes.with_requested_ids(p) for p in progs[::3]]
    # routines with private variables that may be read before they are written on some path
    rp, rres = c02_programs(tier, seed, rnd, caps=(300, 250) if q else (4000, 4000))
    progs += rp
    results += rres
    return progs, results


# ---------------------------------------------------------------------------------------------
# C02 / C03 streams: routines
A_ROUT = dict(Leaves=["i1", "au0"], UnOps=[], BinOps=["-", "+"], Stmts=["Pop", "Store", "Return", "LogU"],
              Ctrl=["Seq2", "If2", "VSeq", "VIf"], NVarsU=1, NVarsB=0, NLocals=1)
A_ROUT_SMALL = dict(Leaves=["i1", "au0"], UnOps=[], BinOps=["-"], Stmts=["Store", "Return", "LogU"],
                    Ctrl=["Seq2", "VSeq"], NVarsU=0, NVarsB=0, NLocals=1)
A_REF = dict(Leaves=["i1", "au0"], UnOps=[], BinOps=[], Stmts=["Store"], Ctrl=["Seq2", "VSeq"], NVarsU=1, NVarsB=0, NLocals=0)
A_ROUTLOOP = dict(Leaves=["i1", "au0"], UnOps=[], BinOps=[], Stmts=["Return", "Nop", "LogU"], Ctrl=["While", "Seq2", "If2", "If3", "IfMixed", "VSeq"],
                  NVarsU=0, NVarsB=0, NLocals=0)
A_REFIF = dict(Leaves=["i1", "au0"], UnOps=[], BinOps=["+"], Stmts=["Store", "RefMacros", "LogU"], Ctrl=["VSeq", "Seq2"], NVarsU=1, NVarsB=0, NLocals=0)
A_IFCHAIN = dict(Leaves=["i1", "au0"], UnOps=[], BinOps=[], Stmts=["Return"], Ctrl=["If2", "If3", "IfMixed", "VSeq"], NVarsU=0, NVarsB=0, NLocals=0)
# (catalogue entry, alphabet, node budget quick, node budget thorough)
SIG_PLANS = [("g_n1", A_IFCHAIN, 10, 11), ("g_ur", A_REFIF, 7, 8), ("g_nr", A_REFIF, 7, 8), ("g_n1", A_ROUTLOOP, 7, 8), ("g_u1", A_ROUTLOOP, 6, 7),
             ("g_u1", A_ROUT, 6, 7), ("g_u2", A_ROUT, 6, 7), ("g_n1", A_ROUT, 6, 7), ("g_u1_n1", A_ROUT_SMALL, 7, 8),
             ("g_n2_u1", A_ROUT_SMALL, 7, 8), ("g_u1_u2", A_ROUT_SMALL, 7, 8), ("g_nr", A_ROUT, 6, 7), ("g_ur", A_ROUT, 6, 7),
             ("g_nr_u1", A_ROUT_SMALL, 7, 8), ("g_nrv", A_REF, 9, 10), ("g_nr_nr", A_REF, 9, 10), ("g_nrv_nr", A_REF, 9, 10)]
SIG_PLANS_THOROUGH_ONLY = [("g_u3", A_ROUT, 0, 7), ("g_n2", A_ROUT, 0, 7), ("g_b1", A_ROUT, 0, 7), ("g_u2_b1", A_ROUT_SMALL, 0, 8),
                           ("g_u3_n1", A_ROUT_SMALL, 0, 8), ("g_n1_n1_u1", A_ROUT_SMALL, 0, 9), ("g_urv", A_REF, 0, 10)]


def c02_settings(prog):
    out = []
    for v in range(4, 11):
        out.append({"v": v})
        if v >= 8:
            out.append({"v": v, "fp": False})
        if v in (5, 8, 9):
            out.append({"v": v, "ss": (v < 9)})
            if v >= 8:
                out.append({"v": v, "ss": (v < 9), "fp": False})
    return out


def c02_programs(tier, seed, rnd, alpha=None, caps=None):
    from concurrent.futures import ThreadPoolExecutor
    q = tier == "quick"
    plans = SIG_PLANS if q else SIG_PLANS + SIG_PLANS_THOROUGH_ONLY

    def one(plan):
        sg, al, nq, nt = plan
        c = dict(alpha or al)
        c["MaxNodes"] = nq if q else nt
        c["SigsName"] = sg
        rs, res = gen.run_builder(c, "c02_%s_%d" % (sg, c["MaxNodes"] * 100 + len(c["Stmts"]) * 10 + len(c["Ctrl"])), workers=4, timeout=1500, main_calls=True,
                                  cap=(min((caps or (6000, 400))[0], 6000 if al is A_REF else 2500 if al is A_REFIF else 900) if (al is A_REF or al is A_ROUTLOOP or al is A_IFCHAIN or al is A_REFIF) else (caps or (6000, 400))[1]) if q else (caps or (3000, 3000))[0],
                                  rnd=random.Random(seed))
        return sg, c, rs, res

    progs, results = [], []
    with ThreadPoolExecutor(max_workers=4) as ex:
        outs = list(ex.map(one, plans))
    for sg, c, rs, res in outs:
        results.append(res)
        for p in rs:
            progs.append(with_vars(finalize(p), c))
    return progs, results


# ---------------------------------------------------------------------------------------------
# C03: optimiser-biased alphabet (few leaves, many stores/loads), the C01 control stream and routines
A_OPT = dict(Leaves=["i1", "au0"], UnOps=[], BinOps=["-"], Stmts=["Store", "Pop", "LogU"],
             Ctrl=["Seq2", "Seq3", "If2", "VSeq"], NVarsU=2, NVarsB=0)
A_OPTM = dict(Leaves=["i1", "au0"], UnOps=[], BinOps=[], Stmts=["OptMacros", "Return"],
              Ctrl=["Seq2", "Seq3", "If2", "If3", "While", "VSeq"], NVarsU=2, NVarsB=0)


def c03_settings(prog):
    out = []
    for v in (2, 5, 7, 8, 9, 10):
        out.append({"v": v, "ss": False})
        out.append({"v": v, "ss": True})
        if v >= 8 and prog.get("rt"):
            out.append({"v": v, "ss": False, "fp": False})
            out.append({"v": v, "ss": True, "fp": False})
    return out


def c03_programs(tier, seed, rnd):
    import outcomes
    q = tier == "quick"
    plans = [("opt", A_OPT, 7 if q else 8, 1500 if q else 30000), ("optm", A_OPTM, 7 if q else 8, 2500 if q else 40000),
             ("control", A_CONTROL, 6 if q else 7, 600 if q else 10000),
             ("nest", A_NEST, 7 if q else 9, 300 if q else 6000)]
    progs, results = [], []
    for name, alpha, n, cap in plans:
        c = dict(alpha)
        c["MaxNodes"] = n
        c["SigsName"] = "none"
        rs, res = gen.run_builder(c, "c03_" + name, workers=8, timeout=1500, cap=cap, rnd=rnd)
        results.append(res)
        for p in rs:
            progs.append(with_vars(finalize(p), c))
    # every fourth recipe also with explicitly requested slot ids (user-numbered slots are compared at the end)
    progs += [outcomes.with_requested_ids(p, base=20) for p in progs[::4] if p.get("vars")]
    rp, rres = c02_programs(tier, seed, rnd, caps=(250, 100) if q else (3000, 3000))
    progs += rp
    return progs, results + rres
