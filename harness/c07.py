"""C07 - ABI decoding and element access return the encoded components.

spec -> code: the type universes of spec/ARC4Gen.tla with, per sample value, the reference encoding of the value and of
each of its components (computed in TLA+ from spec/ARC4.tla).  Per container type the harness builds programs that
decode application argument 0 and log one component: tuple[i] / array[i] with a constant index and with an index
taken from application argument 1, length() of dynamic arrays and strings, get() of integers / bools / bytes.
code -> spec: TLC runs the emitted TEAL on spec/AVM.tla with arg0 = reference encoding (and arg1 = index) and compares
with the expected behaviour "log the component's reference encoding" (spec/Refine.tla); for arrays an index
outside the bounds (length, length + 1, last padding bit of a bool array, 65535) has the expected behaviour "fail"."""
import os
import random
import sys

sys.path.insert(0, os.path.dirname(os.path.abspath(__file__)))
import abiprog  # noqa: E402
import abitypes  # noqa: E402
import batch  # noqa: E402
import common  # noqa: E402
import pipeline  # noqa: E402
from findings import classify_c07  # noqa: E402

pt = abitypes.pt
abi = pt.abi


def elem_type(t, i):
    k = t["k"]
    if k == "tuple":
        return t["es"][i]
    if k in ("sarray", "darray"):
        return t["e"]
    if k == "address":
        return {"k": "byte"}
    if k == "string":
        return {"k": "byte"}
    raise ValueError(k)


def access_program(t, index, runtime, in_sub):
    """decode arg0 as t, store component `index` into a fresh value, log its encoding"""
    def body():
        x = abitypes.to_spec(t).new_instance()
        et = elem_type(t, index if t["k"] == "tuple" else 0)
        y = abitypes.to_spec(et).new_instance()
        ix = pt.Btoi(pt.Txn.application_args[1]) if runtime else index
        return [x.decode(pt.Txn.application_args[0]), x[ix].store_into(y), pt.Log(y.encode())]
    return abiprog.wrap(body, in_sub)


def relookup_program(t, i1, i2):
    """two look-ups on ONE array object with a second decode in between: arg0 is decoded, element i1 logged, arg1 is
    decoded into the same object, element i2 logged"""
    def body():
        x = abitypes.to_spec(t).new_instance()
        et = elem_type(t, 0)
        y1, y2 = abitypes.to_spec(et).new_instance(), abitypes.to_spec(et).new_instance()
        return [x.decode(pt.Txn.application_args[0]), x[i1].store_into(y1), pt.Log(y1.encode()),
                x.decode(pt.Txn.application_args[1]), x[i2].store_into(y2), pt.Log(y2.encode())]
    return abiprog.wrap(body, False)


def mixed_sub_program(t, index, runtime, abi_first):
    """the access happens inside a subroutine that takes the decoded ABI value AND a plain expression (the index): a
    signature mixing ABI-typed and untyped parameters"""
    spec = abitypes.to_spec(t)
    et = elem_type(t, index if t["k"] == "tuple" else 0)

    def body(x, i):
        y = abitypes.to_spec(et).new_instance()
        return pt.Seq(x[i if runtime else index].store_into(y), pt.Log(y.encode()))
    ns = {"pt": pt, "ann": spec.annotation_type(), "body": body}
    if abi_first:
        exec("def elem(x: ann, i: pt.Expr):\n    return body(x, i)\n", ns)
    else:
        exec("def elem(i: pt.Expr, x: ann):\n    return body(x, i)\n", ns)
    sub = pt.Subroutine(pt.TealType.none)(ns["elem"])
    x0 = spec.new_instance()
    ix = pt.Btoi(pt.Txn.application_args[1]) if runtime else pt.Int(index)
    return pt.Seq(x0.decode(pt.Txn.application_args[0]), sub(x0, ix) if abi_first else sub(ix, x0), pt.Int(1))


def length_program(t, in_sub):
    def body():
        x = abitypes.to_spec(t).new_instance()
        return [x.decode(pt.Txn.application_args[0]), pt.Log(pt.Itob(x.length()))]
    return abiprog.wrap(body, in_sub)


def get_program(t, in_sub):
    def body():
        x = abitypes.to_spec(t).new_instance()
        g = x.get()
        return [x.decode(pt.Txn.application_args[0]), pt.Log(pt.Itob(g) if g.type_of() == pt.TealType.uint64 else g)]
    return abiprog.wrap(body, in_sub)


def itob(n):
    return list(n.to_bytes(8, "big"))


def main():
    if os.environ.get("VERIF_REPLAY"):
        print("replay: re-run ./check C07 (programs are rebuilt from the type universe)")
        sys.exit(0)
    chk = common.Check("C07")
    tier, seed = common.tier(), common.seed()
    rnd = random.Random(seed)
    types, g1 = abitypes.gen("level1", 3 if tier == "quick" else 5, "c07a")
    t2, g2 = abitypes.gen("level2", 2 if tier == "quick" else 4, "c07b")
    for g in (g1, g2):
        chk.add_tlc(g)
        if g.error:
            chk.machinery_failure("ARC4Gen failed: %s %s" % (g.error, g.out[-600:]))
    if tier == "quick":
        t2 = rnd.sample(t2, min(len(t2), 50))
    types += t2
    t3, g3 = abitypes.gen("wide", 2, "c07c")          # elements at byte offsets >= 256, elements of 255 / 256 bytes
    chk.add_tlc(g3)
    if g3.error or not t3:
        chk.machinery_failure("ARC4Gen (wide) failed: %s" % g3.error)
    types += t3
    versions = (6, 8, 9) if tier == "quick" else (5, 6, 7, 8, 9, 10)
    entries, metas, descr = [], [], []

    def add(ast_fn, what, cases):
        """cases: list of (raw args, expected recipe); one entry per case, all sharing the compiled texts"""
        rs = []
        try:
            for v in versions:
                r = abiprog.compile_ast(ast_fn(), v)
                r["st"] = {"v": v}
                rs.append(r)
                if "teal" not in r:
                    chk.report("C07/does-not-compile/%s/%s" % (what.split(" ")[0], r["err"]), "%s at v%d: %s" % (what, v, r.get("msg")), {"what": what})
        except abitypes.replay.PYTEAL_ERRORS as e:
            chk.report("C07/build-rejected/%s" % what.split(" ")[0], "%s: %s" % (what, e), {"what": what})
            return
        except Exception as e:  # noqa: BLE001   a well-typed access must build
            chk.report("C07/build-crash/%s/%s" % (what.split(" ")[0], type(e).__name__), "%s raised %s: %s" % (what, type(e).__name__, e), {"what": what})
            return
        for raw, recipe, cdesc in cases:
            cx = batch.default_cx(recipe)
            cx["raw"] = raw
            e, meta = pipeline.make_entry(len(entries) + 1, recipe, rs, cx)
            if e["texts"]:
                entries.append(e)
                metas.append(meta)
                descr.append(what + " " + cdesc)

    for d in types:
        t = d["t"]
        k = t["k"]
        if k in ("tuple", "sarray", "darray", "address"):
            nmax = max((len(v["comps"]) for v in d["vals"]), default=0)
            static_n = len(t["es"]) if k == "tuple" else (t["n"] if k == "sarray" else (32 if k == "address" else None))
            positions = sorted(set([0, 1, 2, nmax - 1, nmax // 2]) & set(range(nmax))) if nmax else []
            for in_sub in ((False, True) if tier == "thorough" or d["sig"].count("(") + d["sig"].count("[") <= 1 else (False,)):
                # constant index
                for i in positions:
                    if static_n is not None and i >= static_n:
                        continue
                    cases = [([v["enc"]], abiprog.expect_log([v["comps"][i]["enc"]]), "value#%d" % j)
                             for j, v in enumerate(d["vals"]) if i < len(v["comps"])]
                    if k == "darray":
                        cases += [([v["enc"]], abiprog.expect_fail(), "value#%d out-of-range" % j)
                                  for j, v in enumerate(d["vals"]) if i >= len(v["comps"])]
                    add(lambda t=t, i=i, s=in_sub: access_program(t, i, False, s), "%s [%d] const %s" % (d["sig"], i, "sub" if in_sub else "main"), cases)
                # run-time index (arrays only)
                if k in ("sarray", "darray", "address"):
                    cases = []
                    for j, v in enumerate(d["vals"]):
                        n = len(v["comps"])
                        for i in sorted(set([0, n - 1, n // 2]) & set(range(n))):
                            cases.append(([v["enc"], itob(i)], abiprog.expect_log([v["comps"][i]["enc"]]), "value#%d idx=%d" % (j, i)))
                        oob = [n, n + 1, 65535]
                        if t.get("e", {}).get("k") == "bool" and n % 8:
                            oob.append(8 * ((n + 7) // 8) - 1)        # last padding bit of the last byte
                        for i in oob:
                            cases.append(([v["enc"], itob(i)], abiprog.expect_fail(), "value#%d idx=%d out-of-range" % (j, i)))
                    add(lambda t=t, s=in_sub: access_program(t, 0, True, s), "%s [run-time] %s" % (d["sig"], "sub" if in_sub else "main"), cases)
                    if not in_sub and d["sig"].count("(") + d["sig"].count("[") <= 2:
                        ok_cases = [c for c in cases if "out-of-range" not in c[2]]
                        for abi_first in (True, False):
                            add(lambda t=t, af=abi_first: mixed_sub_program(t, 0, True, af), "%s [run-time] mixed-signature-sub %s" % (d["sig"], "abi-first" if abi_first else "expr-first"), ok_cases)
        if k == "darray":
            # the same array object decoded twice (values of different lengths), an element looked up after each decode
            pairs = [(a, b) for a in d["vals"] for b in d["vals"] if a is not b and a["comps"] and b["comps"] and len(a["comps"]) != len(b["comps"])]
            for a, b in pairs[:2]:
                i1, i2 = len(a["comps"]) - 1, len(b["comps"]) - 1
                add(lambda t=t, i1=i1, i2=i2: relookup_program(t, i1, i2), "%s [%d] then [%d] after a second decode" % (d["sig"], i1, i2),
                    [([a["enc"], b["enc"]], abiprog.expect_log([a["comps"][i1]["enc"], b["comps"][i2]["enc"]]), "two values")])
        if k in ("darray", "string"):
            cases = [([v["enc"]], abiprog.expect_log([itob(len(v["comps"]))]), "value#%d" % j) for j, v in enumerate(d["vals"])]
            add(lambda t=t: length_program(t, False), "%s length()" % d["sig"], cases)
        if k in ("uint", "bool", "byte", "string", "address"):
            cases = []
            for j, v in enumerate(d["vals"]):
                if k in ("uint", "bool", "byte"):
                    want = itob(abitypes.py_value(t, v["v"]) if k != "bool" else int(v["v"]))
                else:
                    want = v["v"]
                cases.append(([v["enc"]], abiprog.expect_log([want]), "value#%d" % j))
            for in_sub in (False, True):
                add(lambda t=t, s=in_sub: get_program(t, s), "%s get() %s" % (d["sig"], "sub" if in_sub else "main"), cases)
    # named tuples: access by field name; two classes share field names at different positions and are both instantiated
    import json as _json
    U64, STR, U8, BOOL = {"k": "uint", "n": 64}, {"k": "string"}, {"k": "uint", "n": 8}, {"k": "bool"}
    for es in ([U64, STR], [STR, U64, BOOL], [U8, BOOL, STR]):
        ta = {"k": "tuple", "es": es, "nm": "A"}
        tb = {"k": "tuple", "es": list(reversed(es)), "nm": "B"}
        found = [d for d in types if _json.dumps(d["t"].get("es")) == _json.dumps(es)]
        if not found:
            continue
        d = found[0]
        for i, fname in enumerate(abitypes.field_names("A", len(es))):
            def prog(i=i, fname=fname, ta=ta, tb=tb, es=es):
                def body():
                    first = abitypes.to_spec(ta).new_instance()
                    other = abitypes.to_spec(tb).new_instance()           # another class, same names, other positions
                    y = abitypes.to_spec(es[i]).new_instance()
                    return [first.decode(pt.Txn.application_args[0]), pt.Pop(other.type_spec().byte_length_static() if False else pt.Int(0)),
                            getattr(first, fname).store_into(y), pt.Log(y.encode())]
                return abiprog.wrap(body, False)
            cases = [([v["enc"]], abiprog.expect_log([v["comps"][i]["enc"]]), "value#%d" % j) for j, v in enumerate(d["vals"])]
            add(prog, "named%s .%s" % (d["sig"], fname), cases)
    verdicts, tres, errors = pipeline.run_refine(entries, "c07", max_steps=20000, chunks=8, workers_per=2)
    for r in tres:
        chk.add_tlc(r)
    for er in errors:
        chk.machinery_failure(er)
    missing = pipeline.expected_keys(entries) - set(verdicts)
    if missing and not errors:
        chk.machinery_failure("%d verdicts missing e.g. %r" % (len(missing), sorted(missing)[:3]))
    shapes = set()
    oob_ok = 0
    for (idx, cid, k), v in sorted(verdicts.items()):
        if v[3] == "ok":
            shapes.add(descr[idx].split(" value#")[0])
            oob_ok += 1 if "out-of-range" in descr[idx] else 0
        elif v[3] != "inconclusive":
            key = classify_c07(descr[idx], v) or "C07/%s/%s" % (v[3], descr[idx])
            chk.report(key, "%s compiled as %s: ARC-4 says %s, TEAL run %s" % (descr[idx], ",".join(metas[idx][k - 1]["tags"]), v[4], v[5]),
                       {"what": descr[idx], "st": metas[idx][k - 1]["st"], "verdict": v, "args": entries[idx]["cx"]["raw"],
                        "text": metas[idx][k - 1]["text"][:5000], "expected": entries[idx]["recipe"]})
    if entries:
        chk.sample({"what": descr[0], "args": entries[0]["cx"]["raw"], "expected": entries[0]["recipe"]["main"]["a"][0], "teal": metas[0][0]["text"][:500]})
    chk.cov["traces_validated_against_impl"] = sum(len(e["texts"]) for e in entries)
    chk.cov["evaluations"] = len(verdicts)
    chk.cov["distinct_nontrivial"] = len(shapes)
    chk.notes.update({"types": len(types), "access_cases": len(entries), "out_of_range_cases_failing_as_required": oob_ok,
                      "inconclusive": sum(1 for v in verdicts.values() if v[3] == "inconclusive"),
                      "rule": "type universes of ARC4Gen.tla; per container: constant positions {0,1,2,middle,last}, run-time indices {0,middle,last} "
                              "and out-of-range indices; non-trivial = distinct (type, access) whose program produced the reference component"})
    chk.assumptions += ["ARC4.tla encoding (cross-checked against algosdk.abi by the C06 check)", "AVM.tla byte-slice opcodes"]
    chk.finish()


if __name__ == "__main__":
    main()
