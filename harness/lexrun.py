"""Runs spec/Lex.tla (character-level TEAL lexing in TLA+) over a batch of entries; returns clause per entry."""
import os
from concurrent.futures import ThreadPoolExecutor

import tlc


def lines_of(text):
    return [list(ln) for ln in text.encode("utf-8").split(b"\n")]


def run(entries, name, chunks=8, workers_per=2, timeout=1700):
    if not entries:
        return {}, [], []
    chunks = max(1, min(chunks, (len(entries) + 199) // 200))
    size = (len(entries) + chunks - 1) // chunks
    parts = [(ci, entries[ci * size:(ci + 1) * size]) for ci in range(chunks) if entries[ci * size:(ci + 1) * size]]
    wd = tlc.workdir("lex_" + name)
    cfg = "SPECIFICATION Spec\nCONSTANTS Base = 256\nWD = 8\nCHECK_DEADLOCK FALSE\n"

    def one(part):
        ci, ents = part
        bf = os.path.join(wd, "batch_%d.json" % ci)
        tlc.dump_json(bf, ents)
        res = tlc.run_tlc("Lex", cfg, wd, env={"BATCH_FILE": bf}, workers=workers_per, timeout=timeout, tag="chunk%d" % ci, xmx="3g")
        try:
            os.remove(bf)
        except OSError:
            pass
        return ci, res

    verdicts, errors, results = {}, [], []
    with ThreadPoolExecutor(max_workers=len(parts)) as ex:
        for ci, res in ex.map(one, parts):
            results.append(res)
            if res.error:
                errors.append("chunk %d: %s\n%s" % (ci, res.error, tlc.tail(res, 25)))
            for v in res.verdicts:
                idx = ci * size + int(v[0]) - 1
                c = "|".join(v[1:])
                if idx in verdicts and verdicts[idx] != c:
                    errors.append("conflicting verdicts for entry %d" % idx)
                verdicts[idx] = c
    if len(verdicts) != len(entries) and not errors:
        errors.append("%d of %d lex verdicts missing" % (len(entries) - len(verdicts), len(entries)))
    return verdicts, results, errors


def gen_class_strings(nclasses, maxlen, name):
    import json
    wd = tlc.workdir("litgen_" + name)
    cfg = "SPECIFICATION Spec\nCONSTANTS NClasses = %d\nMaxLen = %d\nCHECK_DEADLOCK FALSE\n" % (nclasses, maxlen)
    res = tlc.run_tlc("LitGen", cfg, wd, workers=4, timeout=900, xss="16m")
    out = set()
    for line in res.out.splitlines():
        if line.startswith('"S|'):
            out.add(tuple(json.loads(json.loads(line)[2:])))
    return sorted(out), res
