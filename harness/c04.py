"""C04 - successful compilation yields complete, target-legal TEAL.

spec -> code: (a) a legality sweep: every field- and opcode-producing constructor of the public API (all TxnField /
GlobalField members through Txn / Gtxn / InnerTxn, array fields with constant indices 0 / 255 / 256, every operator
constructor, asset / app / account parameter lookups, boxes, block, json, base64, ecdsa, vrf, scratch and group
imports, inner transaction fields, loops, subroutines, ABI programs, routers) compiled for versions 2..10 x both
modes; (b) the program streams of spec/Gen.tla and the ABI / router programs of the other checks.
code -> spec: whenever compilation succeeds TLC judges the text with spec/TealLegal.tla (spec/Static.tla, LSpec): first
line is the matching #pragma version; every opcode and field exists at that version and in that mode; immediates are
encodable; every branch / callsub target is defined exactly once; backward branches only from version 4; no
placeholder or unparsable line; and with the abstract machine of spec/Static.tla: no path runs off the end of the
program or falls through into another routine's label."""
import os
import random
import sys

sys.path.insert(0, os.path.dirname(os.path.abspath(__file__)))
import batch  # noqa: E402
import common  # noqa: E402
import gen  # noqa: E402
import pipeline  # noqa: E402
import replay  # noqa: E402
import static  # noqa: E402
import streams  # noqa: E402
from findings import classify_c04  # noqa: E402

pt = replay.pt


def sweep():
    """(description, builder of a complete program) - each builder returns an Expr of type uint64 or ending in Approve"""
    out = []
    U, B = pt.TealType.uint64, pt.TealType.bytes

    def val(e):
        return pt.Seq(pt.Pop(e), pt.Int(1))
    arg_u, arg_b = lambda: pt.Btoi(pt.Txn.note()), lambda: pt.Txn.note()  # noqa: E731
    for f in pt.TxnField:
        for objname, obj in (("Txn", lambda: pt.Txn), ("Gtxn[0]", lambda: pt.Gtxn[0]), ("Gtxn[15]", lambda: pt.Gtxn[15]), ("Gtxn[expr]", lambda: pt.Gtxn[arg_u()]),
                             ("InnerTxn", lambda: pt.InnerTxn), ("Gitxn[0]", lambda: pt.Gitxn[0])):
            def mk(f=f, obj=obj, idx=None):
                a = getattr(obj(), f.name)
                return val(a() if idx is None else a[idx])
            if f.is_array:
                for idx in (0, 1, 255, 256, "expr"):
                    out.append(("%s.%s[%s]" % (objname, f.name, idx), lambda f=f, obj=obj, idx=idx: val(getattr(obj(), f.name)[arg_u() if idx == "expr" else idx])))
            else:
                out.append(("%s.%s()" % (objname, f.name), mk))
    for g in pt.GlobalField:
        out.append(("Global.%s" % g.name, lambda g=g: val(pt.Global(g))))
    sample = {U: arg_u, B: arg_b}
    for name, ctor in sorted(replay.OPS.items()):
        def mk(ctor=ctor, name=name):
            import inspect
            for types in ((U,), (B,), (U, U), (B, B), (B, U), (U, U, U), (B, U, U), (B, B, B), (B, U, B)):
                try:
                    return val(ctor(*[sample[t]() for t in types]))
                except (pt.TealTypeError, pt.TealInputError, TypeError):
                    continue
            raise pt.TealInputError("no operand shape fits")
        out.append(("op " + name, mk))
    extra = {
        "Substring const 0,255": lambda: val(pt.Substring(arg_b(), pt.Int(0), pt.Int(255))), "Substring const 0,256": lambda: val(pt.Substring(arg_b(), pt.Int(0), pt.Int(256))),
        "Substring const 200,300": lambda: val(pt.Substring(arg_b(), pt.Int(200), pt.Int(300))), "Substring const 255,256": lambda: val(pt.Substring(arg_b(), pt.Int(255), pt.Int(256))),
        "Substring const 1,256": lambda: val(pt.Substring(arg_b(), pt.Int(1), pt.Int(256))), "Extract const 2,256": lambda: val(pt.Extract(arg_b(), pt.Int(2), pt.Int(256))),
        "Extract const 2,255": lambda: val(pt.Extract(arg_b(), pt.Int(2), pt.Int(255))), "Extract const 256,2": lambda: val(pt.Extract(arg_b(), pt.Int(256), pt.Int(2))),
        "Suffix const 255": lambda: val(pt.Suffix(arg_b(), pt.Int(255))),
        "Substring const 256,300": lambda: val(pt.Substring(arg_b(), pt.Int(256), pt.Int(300))), "Extract const 255,1": lambda: val(pt.Extract(arg_b(), pt.Int(255), pt.Int(1))),
        "Extract const 0,256": lambda: val(pt.Extract(arg_b(), pt.Int(0), pt.Int(256))), "Suffix const 256": lambda: val(pt.Suffix(arg_b(), pt.Int(256))),
        "Suffix const 3": lambda: val(pt.Suffix(arg_b(), pt.Int(3))), "Extract expr": lambda: val(pt.Extract(arg_b(), arg_u(), arg_u())),
        "AssetHolding.balance": lambda: val(pt.Seq(mv := pt.AssetHolding.balance(pt.Int(0), pt.Int(1)), mv.value())),
        "AssetParam.total": lambda: val(pt.Seq(mv := pt.AssetParam.total(pt.Int(1)), mv.value())), "AssetParam.creator": lambda: val(pt.Seq(mv := pt.AssetParam.creator(pt.Int(1)), mv.value())),
        "AppParam.address": lambda: val(pt.Seq(mv := pt.AppParam.address(pt.Int(1)), mv.value())), "AccountParam.balance": lambda: val(pt.Seq(mv := pt.AccountParam.balance(pt.Int(0)), mv.value())),
        "AccountParam.totalBoxes": lambda: val(pt.Seq(mv := pt.AccountParam.totalBoxes(pt.Int(0)), mv.value())),
        "Balance": lambda: val(pt.Balance(pt.Int(0))), "MinBalance": lambda: val(pt.MinBalance(pt.Int(0))), "App.optedIn": lambda: val(pt.App.optedIn(pt.Int(0), pt.Int(1))),
        "App.localGet": lambda: val(pt.App.localGet(pt.Int(0), arg_b())), "App.localPut": lambda: pt.Seq(pt.App.localPut(pt.Int(0), arg_b(), pt.Int(1)), pt.Int(1)),
        "App.globalGetEx": lambda: val(pt.Seq(mv := pt.App.globalGetEx(pt.Int(0), arg_b()), mv.hasValue())), "App.globalDel": lambda: pt.Seq(pt.App.globalDel(arg_b()), pt.Int(1)),
        "Box create/put/get/len/del": lambda: pt.Seq(pt.Pop(pt.App.box_create(arg_b(), pt.Int(8))), pt.App.box_put(arg_b(), arg_b()), mv := pt.App.box_get(arg_b()), pt.Pop(mv.value()),
                                                  ln := pt.App.box_length(arg_b()), pt.Pop(ln.value()), pt.Pop(pt.App.box_delete(arg_b())), pt.Int(1)),
        "Box extract/replace": lambda: pt.Seq(pt.Pop(pt.App.box_extract(arg_b(), pt.Int(0), pt.Int(1))), pt.App.box_replace(arg_b(), pt.Int(0), arg_b()), pt.Int(1)),
        "Box splice/resize": lambda: pt.Seq(pt.App.box_splice(arg_b(), pt.Int(0), pt.Int(1), arg_b()), pt.App.box_resize(arg_b(), pt.Int(9)), pt.Int(1)),
        # one opcode per entry, so that each meets its own version / mode gate
        "Box create": lambda: val(pt.App.box_create(arg_b(), pt.Int(8))), "Box put": lambda: pt.Seq(pt.App.box_put(arg_b(), arg_b()), pt.Int(1)),
        "Box get": lambda: val(pt.Seq(mv := pt.App.box_get(arg_b()), mv.value())), "Box length": lambda: val(pt.Seq(mv := pt.App.box_length(arg_b()), mv.value())),
        "Box delete": lambda: val(pt.App.box_delete(arg_b())), "Box extract": lambda: val(pt.App.box_extract(arg_b(), pt.Int(0), pt.Int(1))),
        "Box replace": lambda: pt.Seq(pt.App.box_replace(arg_b(), pt.Int(0), arg_b()), pt.Int(1)),
        "Box splice": lambda: pt.Seq(pt.App.box_splice(arg_b(), pt.Int(0), pt.Int(1), arg_b()), pt.Int(1)),
        "Box resize": lambda: pt.Seq(pt.App.box_resize(arg_b(), pt.Int(9)), pt.Int(1)),
        "Block.seed": lambda: val(pt.Block.seed(pt.Int(1))), "Block.timestamp": lambda: val(pt.Block.timestamp(pt.Int(1))),
        "JsonRef.as_uint64": lambda: val(pt.JsonRef.as_uint64(arg_b(), arg_b())), "Base64Decode.std": lambda: val(pt.Base64Decode.std(arg_b())),
        "EcdsaVerify": lambda: val(pt.EcdsaVerify(pt.EcdsaCurve.Secp256k1, arg_b(), arg_b(), arg_b(), (arg_b(), arg_b()))),
        "VrfVerify": lambda: val(pt.Seq(mv := pt.VrfVerify.algorand(arg_b(), arg_b(), arg_b()), mv.output_slots[0].load())),
        "ImportScratchValue": lambda: val(pt.ImportScratchValue(0, 1)), "ImportScratchValue expr": lambda: val(pt.ImportScratchValue(arg_u(), 255)),
        "GeneratedID": lambda: val(pt.GeneratedID(0)), "Arg(0)": lambda: val(pt.Arg(0)), "Arg(255)": lambda: val(pt.Arg(255)), "Arg(expr)": lambda: val(pt.Arg(arg_u())),
        "Log": lambda: pt.Seq(pt.Log(arg_b()), pt.Int(1)), "Assert": lambda: pt.Seq(pt.Assert(arg_u()), pt.Int(1)), "Assert comment": lambda: pt.Seq(pt.Assert(arg_u(), comment="c"), pt.Int(1)),
        "While": lambda: pt.Seq(pt.While(arg_u()).Do(pt.Pop(pt.Int(1))), pt.Int(1)), "For": lambda: pt.Seq(v := pt.ScratchVar(), pt.For(v.store(pt.Int(0)), v.load() < pt.Int(3), v.store(v.load() + pt.Int(1))).Do(pt.Pop(pt.Int(1))), pt.Int(1)),
        "ScratchVar slot 255": lambda: pt.Seq(v := pt.ScratchVar(U, 255), v.store(pt.Int(1)), v.load()), "DynamicScratchVar": lambda: pt.Seq(v := pt.ScratchVar(U, 5), d := pt.DynamicScratchVar(), d.set_index(v), d.store(pt.Int(1)), d.load()),
        "WideRatio": lambda: pt.WideRatio([arg_u(), arg_u()], [arg_u()]), "OpUp": lambda: pt.Seq(pt.OpUp(pt.OpUpMode.OnCall).ensure_budget(pt.Int(1000)), pt.Int(1)),
        "InnerTxnBuilder pay": lambda: pt.Seq(pt.InnerTxnBuilder.Execute({pt.TxnField.type_enum: pt.TxnType.Payment, pt.TxnField.amount: pt.Int(1), pt.TxnField.receiver: pt.Txn.sender()}), pt.Int(1)),
        "InnerTxnBuilder group": lambda: pt.Seq(pt.InnerTxnBuilder.Begin(), pt.InnerTxnBuilder.SetField(pt.TxnField.type_enum, pt.TxnType.Payment), pt.InnerTxnBuilder.Next(),
                                                pt.InnerTxnBuilder.SetFields({pt.TxnField.type_enum: pt.TxnType.ApplicationCall, pt.TxnField.application_args: [arg_b(), arg_b()], pt.TxnField.accounts: [pt.Txn.sender()]}),
                                                pt.InnerTxnBuilder.Submit(), pt.Int(1)),
        "Concat many": lambda: val(pt.Concat(arg_b(), arg_b(), arg_b())), "Cond": lambda: pt.Cond([arg_u(), pt.Int(1)], [pt.Int(1), pt.Int(0)]),
        "BytesZero": lambda: val(pt.BytesZero(pt.Int(3))), "Divw": lambda: val(pt.Divw(arg_u(), arg_u(), arg_u())), "ExtractUint64": lambda: val(pt.ExtractUint64(arg_b(), pt.Int(0))),
        "Replace const": lambda: val(pt.Replace(arg_b(), pt.Int(1), arg_b())), "Replace expr": lambda: val(pt.Replace(arg_b(), arg_u(), arg_b())), "Replace const 256": lambda: val(pt.Replace(arg_b(), pt.Int(256), arg_b())),
        "MultiValue If": lambda: pt.If(arg_u(), pt.Int(1), pt.Int(0)), "Sha3_256": lambda: val(pt.Sha3_256(arg_b())), "Ed25519Verify_Bare": lambda: val(pt.Ed25519Verify_Bare(arg_b(), arg_b(), arg_b())),
    }
    out += sorted(extra.items())

    def sub_prog():
        @pt.Subroutine(U)
        def f(a, b):
            return a + b

        @pt.Subroutine(pt.TealType.none)
        def g(x: pt.ScratchVar):
            return x.store(pt.Int(3))
        v = pt.ScratchVar()
        return pt.Seq(v.store(pt.Int(1)), g(v), f(v.load(), pt.Int(2)))
    out.append(("Subroutines by value / by reference", sub_prog))
    # ABI values inside subroutines (frame cells under the frame-pointer convention: proto / dupn / frame_dig / frame_bury)
    import c10
    for what, build in c10.abi_frame_programs("quick", ns=(1, 2, 3, 4, 5)):
        out.append((what, build))
    import abiprog
    for sig, t, v in (("(uint8,string,bool)", {"k": "tuple", "es": [{"k": "uint", "n": 8}, {"k": "string"}, {"k": "bool"}], "nm": ""}, [[3], [104, 105], 1]),
                      ("uint16[3]", {"k": "sarray", "e": {"k": "uint", "n": 16}, "n": 3}, [[1], [2], [3]])):
        for in_sub in (False, True):
            out.append(("abi encode %s %s" % (sig, "sub" if in_sub else "main"), lambda t=t, v=v, in_sub=in_sub: abiprog.encode_program(t, v, in_sub)))
    return out


def main():
    chk = common.Check("C04")
    tier, seed = common.tier(), common.seed()
    rnd = random.Random(seed)
    q = tier == "quick"
    entries, descr = [], []
    seen = set()

    def add_text(what, teal, version, mode, recipe_R=None, registry=None, st=None):
        if (teal, mode) in seen:
            return
        seen.add((teal, mode))
        t = static.text_record(teal, version, mode, recipe_R=recipe_R, registry=registry, tag="v%d,%s" % (version, mode))
        t["_text"], t["_what"], t["_st"] = teal, what, st or {"v": version, "mode": mode}
        entries.append({"texts": [t]})
        descr.append(what)
    # (a) legality sweep
    nsweep = nrej = 0
    for what, mk in sweep():
        for v in range(2, 11):
            for mode, m in (("app", pt.Mode.Application), ("sig", pt.Mode.Signature)):
                try:
                    teal = pt.compileTeal(mk(), m, version=v)
                    nsweep += 1
                    add_text(what, teal, v, mode)
                except replay.PYTEAL_ERRORS:
                    nrej += 1
                except Exception as e:  # noqa: BLE001   (C20's business; noted, not judged here)
                    nrej += 1
    # (b) program streams
    progs, gres = [], []
    for name, alpha, n, cap in (("control", streams.A_CONTROL, 6, 300 if q else 3000), ("effects", streams.A_EFFECTS, 6, 300 if q else 3000),
                                ("nest", streams.A_NEST, 8, 200 if q else 2000), ("degen", streams.A_DEGEN, 8, 600 if q else 8000)):
        c = dict(alpha)
        c["MaxNodes"] = n
        c["SigsName"] = "none"
        rs, res = gen.run_builder(c, "c04_" + name, workers=8, timeout=1500, cap=cap, rnd=rnd)
        gres.append(res)
        progs += [streams.with_vars(streams.finalize(p), c) for p in rs]
    rp, rres = streams.c02_programs(tier, seed, rnd, caps=(3000, 100) if q else (2000, 500))      # (the thorough tier of this check once needed 7 GB: budgets cut)
    progs += rp
    for r in gres + rres:
        chk.add_tlc(r)
        if r.error:
            chk.machinery_failure("Gen run failed: " + r.error)
    sets = [{"v": v, "mode": "app"} for v in ((2, 3, 4, 6, 8, 10) if q else range(2, 11))] + [{"v": 8, "fp": False, "mode": "app"}, {"v": 5, "mode": "sig"}]
    results = pipeline.compile_all([(p, sets) for p in progs])
    import tealtok
    for p, rs in zip(progs, results):
        for r in rs:
            if "teal" in r:
                instrs, _ = tealtok.parse_program(r["teal"])
                add_text(p, r["teal"], r["st"]["v"], r["st"].get("mode", "app"), recipe_R=batch.routine_table(p, instrs), st=r["st"])
    clean = [{"texts": [{k: v for k, v in t.items() if not k.startswith("_")} for t in e["texts"]]} for e in entries]
    lines, tres, errors = static.run(clean, "c04L", spec="LSpec")
    lines2, tres2, errors2 = static.run(clean, "c04X", spec="Spec")
    for r in tres + tres2:
        chk.add_tlc(r)
    for e in errors + errors2:
        chk.machinery_failure(e)
    got = set((ln[1], ln[2]) for ln in lines if ln[0] == "L")
    if len(got) != len(entries) and not errors:
        chk.machinery_failure("%d legality verdicts missing" % (len(entries) - len(got)))

    def report(idx, why, pc):
        t = entries[idx]["texts"][0]
        what = t["_what"]
        wname = what if isinstance(what, str) else streams.shape_digest({"main": what["main"], "rt": what.get("rt", [])})
        key = classify_c04(what, t, why) or "C04/%s/%s" % (why.split(" ")[0], wname)
        chk.report(key, "%s compiled as %s: %s at statement %s: %s" % (wname, t["tag"], why, pc, t["teal"][pc - 1] if 0 < pc <= len(t["teal"]) else ""),
                   {"what": wname, "recipe": None if isinstance(what, str) else {"main": what["main"], "rt": what.get("rt", [])}, "st": t["_st"], "why": why, "text": t["_text"][:5000]})
    for ln in lines:
        if ln[0] == "L" and ln[3] != "":
            pc, _, why = ln[3].partition(":")
            report(ln[1], why, int(pc))
    for ln in lines2:
        if ln[0] == "X" and (ln[4].startswith("falls-") or ln[4] in ("retsub-in-main",)):
            report(ln[1], ln[4], int(ln[3]))
    chk.sample({"what": descr[0] if isinstance(descr[0], str) else "recipe", "text": entries[0]["texts"][0]["_text"][:300]})
    chk.sample({"sweep_constructors": [d for d in descr if isinstance(d, str)][:60]})
    chk.cov["traces_validated_against_impl"] = len(entries)
    chk.cov["evaluations"] = len(entries) + nrej
    chk.cov["distinct_nontrivial"] = len(set(d if isinstance(d, str) else id(d) for d in descr))
    chk.notes.update({"sweep_compilations_succeeded": nsweep, "sweep_compilations_rejected_by_pyteal": nrej, "stream_programs": len(progs), "distinct_texts": len(entries),
                      "rule": "legality sweep: every constructor x versions 2..10 x both modes (complete); streams: behaviours of Gen.tla sampled; "
                              "an evaluation is one compilation attempt; non-trivial = distinct constructor / recipe with at least one emitted text"})
    chk.assumptions += ["TealLegal.tla (permissive where the language specification could not be recalled with certainty)", "tokenizer glue (agreement with TealLex.tla is exercised by C13/C18)"]
    chk.finish()


if __name__ == "__main__":
    main()
