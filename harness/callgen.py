"""Runs spec/CallGen.tla: signature + sample index -> what an ARC-4 client sends and what an echo handler returns."""
import json
import os

import tlc


def run(sigs, name):
    """sigs: list of {"params": [type records], "vj": int} -> list of outputs (same order), TLCResult"""
    wd = tlc.workdir("callgen_" + name)
    bf = os.path.join(wd, "batch.json")
    tlc.dump_json(bf, sigs)
    cfg = "SPECIFICATION Spec\nCONSTANTS Base = 256\nWD = 8\nCHECK_DEADLOCK FALSE\n"
    res = tlc.run_tlc("CallGen", cfg, wd, env={"BATCH_FILE": bf}, workers=8, timeout=1500, xss="64m")
    out = {}
    for line in res.out.splitlines():
        if line.startswith('"C|'):
            s = json.loads(line)
            _, tid, body = s.split("|", 2)
            out[int(tid) - 1] = json.loads(body)
    return [out.get(i) for i in range(len(sigs))], res


def U(n):
    ds = []
    while n:
        ds.append(n % 256)
        n //= 256
    return {"t": "u", "v": ds[::-1]}


def B(bs):
    return {"t": "b", "v": list(bs)}


def digits(n):
    return U(n)["v"]
