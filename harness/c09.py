"""C09 - routed methods receive ARC-4 arguments and log ARC-4 results.

spec -> code: a catalogue of method signatures (0..17 plain parameters of rotating ABI types; transaction parameters
first / middle / last / adjacent; account, asset and application parameters in every position class, also beyond
the 15th application argument; void and non-void results).  For each signature and sample index spec/CallGen.tla
computes - from the ARC-4 calling convention and the codec of spec/ARC4.tla - the application arguments a conforming
client sends (tuple packing from the 15th), the foreign arrays, the preceding group transactions and the bytes an
"echo" handler must log (0x151f7c75 ++ string of all argument digests).
code -> spec: the Router program with that echo method is compiled (versions 6..10: scratch and frame-pointer glue) and
TLC runs it on spec/AVM.tla in the client-built context (spec/Refine.tla): exactly the expected return log, once,
then approve; a preceding transaction of the wrong type must make the call fail.  The ABI contract description must list
exactly the registered methods and every listed signature's selector must be one the program compares against."""
import os
import random
import sys

sys.path.insert(0, os.path.dirname(os.path.abspath(__file__)))
import abiprog  # noqa: E402
import abitypes  # noqa: E402
import batch  # noqa: E402
import callgen  # noqa: E402
import common  # noqa: E402
import pipeline  # noqa: E402
import tealtok  # noqa: E402
from callgen import B, U  # noqa: E402
from findings import classify_c09  # noqa: E402

pt = abitypes.pt
abi = pt.abi

PLAIN = [{"k": "uint", "n": 64}, {"k": "string"}, {"k": "uint", "n": 8}, {"k": "bool"}, {"k": "sarray", "e": {"k": "byte"}, "n": 3},
         {"k": "tuple", "es": [{"k": "uint", "n": 8}, {"k": "string"}], "nm": ""}, {"k": "darray", "e": {"k": "uint", "n": 16}}, {"k": "address"}]
REF = {c: {"k": "ref", "s": c} for c in ("account", "asset", "application")}
TXN = {c: {"k": "txn", "s": c} for c in ("txn", "pay", "axfer", "appl")}
TXN_ANN = {"txn": abi.Transaction, "pay": abi.PaymentTransaction, "axfer": abi.AssetTransferTransaction, "appl": abi.ApplicationCallTransaction}
REF_ANN = {"account": abi.Account, "asset": abi.Asset, "application": abi.Application}


def plain(n, shift=0):
    return [PLAIN[(j + shift) % len(PLAIN)] for j in range(n)]


def catalogue(tier, rnd):
    sigs = []
    for n in (0, 1, 2, 3, 14, 15, 16, 17) + ((20,) if tier == "thorough" else ()):
        sigs.append(plain(n))
        sigs.append(plain(n, 1))
    # dynamic types at and around the packing boundary
    for n in (14, 15, 16):
        sigs.append(plain(n - 1, 2) + [{"k": "string"}])
        sigs.append([{"k": "string"}] * n)
    # transaction parameters: first / middle / last / adjacent / many parameters in total
    for kinds in (["pay"], ["txn"], ["pay", "axfer"], ["axfer", "txn", "pay"]):
        ts = [TXN[k] for k in kinds]
        sigs += [ts + plain(2), plain(2) + ts, plain(1) + ts + plain(1, 3), ts]
        sigs += [[ts[0]] + plain(1) + ts[1:] + plain(1, 2)] if len(ts) > 1 else []
    for extra in (13, 14, 15, 16):
        sigs.append([TXN["pay"]] + plain(extra) + [TXN["axfer"]])          # > 15 parameters but <= / > 15 application arguments
        sigs.append(plain(extra - 1, 1) + [{"k": "string"}, TXN["pay"]])
    # reference parameters
    for r in ("account", "asset", "application"):
        sigs += [[REF[r]] + plain(2), plain(2) + [REF[r]], plain(1) + [REF[r]] + plain(1, 4), [REF[r], REF[r]] + plain(1), [REF[r]]]
    sigs.append([REF["account"], REF["asset"], REF["application"], REF["account"], REF["asset"]] + plain(2))
    for n in (13, 14, 15):
        sigs.append(plain(n) + [REF["account"], {"k": "uint", "n": 8}, {"k": "string"}])     # reference inside the packed tuple
        sigs.append(plain(n) + [REF["asset"], REF["application"], {"k": "uint", "n": 64}])
    sigs.append([TXN["pay"], REF["account"]] + plain(14) + [REF["asset"], {"k": "string"}])
    for _ in range(10 if tier == "quick" else 150):
        n = rnd.choice((1, 2, 3, 5, 14, 15, 16, 18))
        ps = []
        for _ in range(n):
            x = rnd.random()
            ps.append(rnd.choice(list(TXN.values())) if x < 0.12 else rnd.choice(list(REF.values())) if x < 0.3 else rnd.choice(PLAIN))
        if len([p for p in ps if p["k"] == "ref" and p["s"] == "account"]) <= 4:
            sigs.append(ps)
    return sigs


def make_router(params, void):
    names = ["a%d" % j for j in range(len(params))]
    anns, pieces = {}, []
    for nm, p in zip(names, params):
        if p["k"] == "txn":
            anns[nm] = TXN_ANN[p["s"]]
            pieces.append("pt.Itob(%s.get().type_enum())" % nm)
        elif p["k"] == "ref":
            anns[nm] = REF_ANN[p["s"]]
            pieces.append({"account": "%s.address()", "asset": "pt.Itob(%s.asset_id())", "application": "pt.Itob(%s.application_id())"}[p["s"]] % nm)
        else:
            anns[nm] = abitypes.to_spec(p).annotation_type()
            pieces.append("%s.encode()" % nm)
    ns = {"pt": pt, "abi": abi}
    ns.update({"T_" + nm: a for nm, a in anns.items()})
    sig = ", ".join("%s: T_%s" % (nm, nm) for nm in names)
    body = "pt.Concat(pt.Bytes(b''), pt.Bytes(b'')%s)" % "".join(", " + p for p in pieces)
    if void:
        src = "def echo(%s):\n    return pt.Log(%s)\n" % (sig, body)
    else:
        src = "def echo(%s%s*, output: abi.String):\n    return output.set(%s)\n" % (sig, ", " if sig else "", body)
    exec(src, ns)
    router = pt.Router("c09", pt.BareCallActions())
    router.add_method_handler(pt.ABIReturnSubroutine(ns["echo"]), method_config=pt.MethodConfig(no_op=pt.CallConfig.CALL))
    return router


def context(sel, out, wrong_txn=None):
    n_tx = len(out["txns"])
    group = []
    for q, te in enumerate(out["txns"]):
        te2 = (te % 6) + 1 if wrong_txn == q else te
        group.append({"f": {"TypeEnum": U(te2), "Amount": U(1000 + q), "Sender": B([9] * 32)}, "aa": [], "acc": [], "asst": [], "apps": []})
    me = {"f": {"TypeEnum": U(6), "OnCompletion": U(0), "ApplicationID": U(1001), "Sender": B([7] * 32)},
          "aa": [list(sel)] + out["appargs"], "acc": out["accounts"], "asst": [callgen.digits(a) for a in out["assets"]],
          "apps": [callgen.digits(a) for a in out["apps"]]}
    group.append(me)
    return {"gi": n_tx + 1, "group": group}


def main():
    if os.environ.get("VERIF_REPLAY"):
        print("replay: re-run ./check C09 (routers are rebuilt from the signature catalogue)")
        sys.exit(0)
    chk = common.Check("C09")
    tier, seed = common.tier(), common.seed()
    rnd = random.Random(seed)
    cat = catalogue(tier, rnd)
    reqs = []
    for ps in cat:
        for vj in ((0, 1) if tier == "quick" else (0, 1, 2, 3)):
            reqs.append({"params": ps, "vj": vj})
    outs, gres = callgen.run(reqs, "c09")
    chk.add_tlc(gres)
    if gres.error or any(o is None for o in outs):
        chk.machinery_failure("CallGen failed: %s %s" % (gres.error, gres.out[-1500:]))
        chk.finish()
    versions = (6, 8) if tier == "quick" else (6, 7, 8, 9, 10)
    entries, metas, descr = [], [], []
    compiled = {}
    for req, out in zip(reqs, outs):
        ps = req["params"]
        for void in ((False,) if req["vj"] else (False, True)):
            key = (id(ps), void)
            if key not in compiled:
                sigstr = "echo(%s)%s" % (",".join(abitypes_sig(p) for p in ps), "void" if void else "string")
                try:
                    router = make_router(ps, void)
                    rs = []
                    contract = None
                    for v in versions:
                        try:
                            ap, cl, contract = router.compile_program(version=v)
                            rs.append({"teal": ap, "st": {"v": v}})
                        except abitypes.replay.PYTEAL_ERRORS as e:
                            rs.append({"err": type(e).__name__, "msg": str(e)[:200], "st": {"v": v}})
                            chk.report("C09/does-not-compile/%s" % type(e).__name__, "%s at v%d: %s" % (sigstr, v, e), {"sig": sigstr})
                    if contract is not None:
                        listed = sorted(m.get_signature() for m in contract.methods)
                        if listed != [sigstr]:
                            chk.report("C09/contract-methods/%s" % sigstr, "contract lists %r, registered %r" % (listed, [sigstr]), {"sig": sigstr})
                        for r in rs:
                            if "teal" in r:
                                sels = set(bytes(i["b"]) for i in tealtok.parse_program(r["teal"])[0] if i["op"] == "method")
                                if set(tealtok.selector(s) for s in listed) - sels:
                                    chk.report("C09/contract-selector-not-dispatched/%s" % sigstr, "a listed signature's selector is not compared against by the program", {"sig": sigstr})
                    compiled[key] = (sigstr, rs)
                except abitypes.replay.PYTEAL_ERRORS as e:
                    chk.report("C09/router-rejected/%s" % type(e).__name__, "%s: %s" % (sigstr, e), {"sig": sigstr})
                    compiled[key] = (sigstr, [])
            sigstr, rs = compiled[key]
            if not rs:
                continue
            sel = tealtok.selector(sigstr)
            cases = [(None, abiprog.expect_log([out["retlog"]] if not void else [out["echo"]]), "ok-call")]
            for q in range(len(out["txns"])):
                if req["params"][[j for j, p in enumerate(ps) if p["k"] == "txn"][q]]["s"] != "txn":
                    cases.append((q, abiprog.expect_fail(), "wrong-type-of-txn-%d" % q))
            for wrong, recipe, cdesc in cases:
                cx = batch.default_cx(recipe)
                cx["rawctx"] = context(sel, out, wrong)
                e, meta = pipeline.make_entry(len(entries) + 1, recipe, rs, cx)
                if e["texts"]:
                    entries.append(e)
                    metas.append(meta)
                    descr.append("%s values#%d %s" % (sigstr, req["vj"], cdesc))
    # registration under another name: the contract must describe the method the program dispatches on
    # one subroutine object registered several times (two names in one router, then again in a second router)
    ns2 = {"pt": pt, "abi": abi}
    exec("def shared(a: abi.Uint64, *, output: abi.Uint64):\n    return output.set(a.get())\n", ns2)
    shared = pt.ABIReturnSubroutine(ns2["shared"])
    for rname, names in (("first", ("send", "pay_out")), ("second", ("transfer",))):
        router = pt.Router(rname, pt.BareCallActions())
        for nm in names:
            router.add_method_handler(shared, overriding_name=nm, method_config=pt.MethodConfig(no_op=pt.CallConfig.CALL), description="d " + nm)
        ap, cl, contract = router.compile_program(version=8)
        listed = sorted(m.get_signature() for m in contract.methods)
        sels = set(bytes(i["b"]) for i in tealtok.parse_program(ap)[0] if i["op"] == "method")
        if set(tealtok.selector(x) for x in listed) != sels or listed != sorted("%s(uint64)uint64" % nm for nm in names):
            chk.report("C09/contract-vs-program/shared-subroutine-%s" % rname,
                       "a subroutine registered under %r: contract lists %r" % (names, listed), {"names": names, "listed": listed, "approval": ap[:1500]})
    # a registration the router refuses must leave no trace: later contracts list exactly what the program dispatches on
    nsg = {"pt": pt, "abi": abi}
    exec("def alpha(a: abi.Uint64, *, output: abi.Uint64):\n    return output.set(a.get())\n"
         "def beta(a: abi.String):\n    return pt.Log(a.get())\n"
         "def gamma(a: abi.Uint8):\n    return pt.Log(a.encode())\n", nsg)
    router = pt.Router("ghost", pt.BareCallActions())
    call = pt.MethodConfig(no_op=pt.CallConfig.CALL)
    router.add_method_handler(pt.ABIReturnSubroutine(nsg["alpha"]), method_config=call)
    refused = 0
    for attempt in (lambda: router.add_method_handler(pt.ABIReturnSubroutine(nsg["alpha"]), method_config=call),                       # same signature again
                    lambda: router.add_method_handler(pt.ABIReturnSubroutine(nsg["gamma"]), method_config=pt.MethodConfig()),          # never callable
                    lambda: router.add_method_handler(pt.ABIReturnSubroutine(nsg["gamma"]), overriding_name="alpha", method_config=call)):
        try:
            attempt()
        except abitypes.replay.PYTEAL_ERRORS:
            refused += 1
    router.add_method_handler(pt.ABIReturnSubroutine(nsg["beta"]), method_config=call)
    ap, cl, contract = router.compile_program(version=8)
    listed = sorted(m.get_signature() for m in contract.methods)
    sels = set(bytes(i["b"]) for i in tealtok.parse_program(ap)[0] if i["op"] == "method")
    if len(set(listed)) != len(listed) or set(tealtok.selector(x) for x in listed) != sels:
        chk.report("C09/contract-vs-program/after-refused-registrations", "after %d refused registrations the contract lists %r, the program dispatches on %d selectors" % (refused, listed, len(sels)),
                   {"listed": listed, "approval": ap[:1500]})
    chk.notes["refused_registrations"] = refused
    # results of every basic type: the return log is the prefix 151f7c75 followed by the ARC-4 encoding of the result
    rtypes, gr = abitypes.gen("level1", 1, "c09r")
    chk.add_tlc(gr)
    want = ("bool", "byte", "uint8", "uint16", "uint32", "uint64", "address", "string", "bool[9]", "uint16[2]", "(uint8,string)", "(bool,bool)")
    out0 = next((o for q, o in zip(reqs, outs) if not q["params"]), None)
    for d in [x for x in rtypes if x["sig"] in want]:
        val = d["vals"][0]
        nsr = {"pt": pt, "abi": abi, "T": abitypes.to_spec(d["t"]).annotation_type(), "abiprog": abiprog, "d": d, "val": val}
        exec("def ret(*, output: T):\n    stmts = []\n    x = abiprog.build_value(d['t'], val['v'], stmts)\n    return pt.Seq(*stmts, output.decode(x.encode()))\n", nsr)
        sigstr = "ret()%s" % d["sig"]
        try:
            router = pt.Router("c09r", pt.BareCallActions())
            router.add_method_handler(pt.ABIReturnSubroutine(nsr["ret"]), method_config=call)
            rs = [{"teal": router.compile_program(version=v)[0], "st": {"v": v}} for v in versions]
        except abitypes.replay.PYTEAL_ERRORS as e:
            chk.report("C09/router-rejected/%s" % type(e).__name__, "%s: %s" % (sigstr, e), {"sig": sigstr})
            continue
        if out0 is None:
            chk.machinery_failure("no argument-less signature in the catalogue")
            break
        recipe = abiprog.expect_log([[0x15, 0x1f, 0x7c, 0x75] + list(val["enc"])])
        cx = batch.default_cx(recipe)
        cx["rawctx"] = context(tealtok.selector(sigstr), out0, None)
        e, meta = pipeline.make_entry(len(entries) + 1, recipe, rs, cx)
        if e["texts"]:
            entries.append(e)
            metas.append(meta)
            descr.append("%s values#0 ok-call" % sigstr)
    for how in ("overriding_name", "decorator_name"):
        ns = {"pt": pt, "abi": abi}
        exec("def original(a: abi.Uint64, *, output: abi.Uint64):\n    return output.set(a.get())\n", ns)
        router = pt.Router("c09n", pt.BareCallActions())
        if how == "overriding_name":
            router.add_method_handler(pt.ABIReturnSubroutine(ns["original"]), overriding_name="renamed", method_config=pt.MethodConfig(no_op=pt.CallConfig.CALL))
        else:
            router.method(name="renamed", no_op=pt.CallConfig.CALL)(ns["original"])
        ap, cl, contract = router.compile_program(version=8)
        listed = sorted(m.get_signature() for m in contract.methods)
        sels = set(bytes(i["b"]) for i in tealtok.parse_program(ap)[0] if i["op"] == "method")
        if set(tealtok.selector(x) for x in listed) != sels:
            chk.report(classify_c09(how, None) or "C09/contract-vs-program/%s" % how,
                       "registered through %s: contract lists %r but the program dispatches on other selectors" % (how, listed), {"how": how, "listed": listed, "approval": ap[:1500]})
    verdicts, tres, errors = pipeline.run_refine(entries, "c09", max_steps=30000, chunks=8, workers_per=2)
    for r in tres:
        chk.add_tlc(r)
    for er in errors:
        chk.machinery_failure(er)
    missing = pipeline.expected_keys(entries) - set(verdicts)
    if missing and not errors:
        chk.machinery_failure("%d verdicts missing e.g. %r" % (len(missing), sorted(missing)[:3]))
    good = set()
    for (idx, cid, k), v in sorted(verdicts.items()):
        if v[3] == "ok":
            good.add(descr[idx].split(" values#")[0])
        elif v[3] != "inconclusive":
            key = classify_c09(descr[idx], v) or "C09/%s/%s" % (v[3], descr[idx].split(" values#")[0] + descr[idx].split(" ")[-1])
            chk.report(key, "%s compiled as %s: convention says %s, TEAL run %s" % (descr[idx], ",".join(metas[idx][k - 1]["tags"]), v[4], v[5]),
                       {"what": descr[idx], "st": metas[idx][k - 1]["st"], "verdict": v, "context": entries[idx]["cx"]["rawctx"],
                        "text": metas[idx][k - 1]["text"][:8000], "expected": entries[idx]["recipe"]})
    if entries:
        chk.sample({"what": descr[0], "application_args": entries[0]["cx"]["rawctx"]["group"][-1]["aa"], "expected": entries[0]["recipe"]["main"]["a"][0]})
        chk.sample({"what": descr[-1]})
    chk.cov["traces_validated_against_impl"] = sum(len(e["texts"]) for e in entries)
    chk.cov["evaluations"] = len(verdicts)
    chk.cov["distinct_nontrivial"] = len(good)
    chk.notes.update({"signatures": len(cat), "calls": len(entries), "inconclusive": sum(1 for v in verdicts.values() if v[3] == "inconclusive"),
                      "rule": "signature catalogue (structured families + seeded random) x sample indices; client side computed by CallGen.tla; "
                              "non-trivial = distinct signature whose routed call returned the expected log"})
    chk.assumptions += ["ARC-4 calling convention as transcribed in CallGen.tla; codec cross-checked by C06", "selectors computed by the harness (sha512/256)"]
    chk.finish()


def abitypes_sig(p):
    if p["k"] in ("ref", "txn"):
        return p["s"]
    return str(abitypes.to_spec(p))


if __name__ == "__main__":
    main()
