"""Static validation of emitted TEAL with spec/Static.tla: legality of every instruction (C04) and all-paths abstract
execution (termination C04, stack / type discipline C05).  The harness supplies, per text, the parsed instructions,
the routine signatures, the entry points and a height witness H computed by depth-first search using the stack
effects of the specification's own opcode table (spec/TableDump.tla); TLC verifies that H is inductive."""
import json
import os
import re
from concurrent.futures import ThreadPoolExecutor

import tealtok
import tlc

_TABLE = None


def op_table():
    global _TABLE
    if _TABLE is None:
        wd = tlc.workdir("tabledump")
        res = tlc.run_tlc("TableDump", "SPECIFICATION Spec\nCHECK_DEADLOCK FALSE\n", wd, workers=1, timeout=300, xss="16m")
        for line in res.out.splitlines():
            if line.startswith('"O|'):
                rows = json.loads(json.loads(line)[2:])
                _TABLE = {r[0]: r for r in rows}
        if _TABLE is None:
            raise RuntimeError("TableDump failed: " + res.out[-500:])
    return _TABLE


FIELD_PUSH = {"txn", "txna", "gtxn", "gtxna", "global", "itxn", "itxna", "gitxn", "gitxna"}
FIELD_POP1 = {"txnas", "gtxnas", "gtxns", "gtxnsa", "itxnas", "gitxnas"}


def effect(ins, R):
    """net stack height change of one instruction, or None when terminal / unknown"""
    op = ins["op"]
    t = op_table()
    if op not in t:
        return None
    row = t[op]
    if row[3] != "*" and row[4] != "*":
        return len(row[4]) - len(row[3])
    if op in FIELD_PUSH:
        return 1
    if op in FIELD_POP1:
        return 0
    i = ins["i"]
    return {"gtxnsas": -1, "dup": 1, "dup2": 2, "swap": 0, "dig": 1, "bury": -1, "cover": 0, "uncover": 0, "select": -2, "setbit": -2,
            "proto": 0, "frame_dig": 1, "frame_bury": -1}.get(op, {"dupn": i[0] if i else 0, "popn": -(i[0] if i else 0),
            "pushints": len(ins["cs"]), "pushbytess": len(ins["cs"]),
            "callsub": (R[ins["s"]]["nr"] - R[ins["s"]]["na"]) if ins["s"] in R else None}.get(op))


def heights(instrs, R, entries):
    """first-visit heights per pc (1-based list), -1 where unreachable"""
    H = [-1] * (len(instrs) + 1)
    for e in entries:
        start = 0 if e == 1 else R[instrs[e - 1]["s"]]["na"]
        stack = [(e, start)]
        while stack:
            pc, h = stack.pop()
            while 1 <= pc <= len(instrs):
                if H[pc] >= 0:
                    break
                H[pc] = h
                ins = instrs[pc - 1]
                op = ins["op"]
                if op in ("err", "return", "retsub"):
                    break
                if op == "b":
                    pc = ins["t"]
                    continue
                if op in ("bz", "bnz"):
                    h -= 1
                    stack.append((ins["t"], h))
                    pc += 1
                    continue
                d = effect(ins, R)
                if d is None:
                    break
                h += d
                if h < 0:
                    break
                pc += 1
    return H[1:]


_LBL = re.compile(r"^(.*)_(\d+)$")


def signatures(instrs, recipe_R=None, registry=None):
    """label -> {na, nr}: from the recipe's routine table, else from `proto`, else from the subroutine registry"""
    R = {"_": {"na": 0, "nr": 0}}
    targets = set(i["s"] for i in instrs if i["op"] == "callsub")
    for j, ins in enumerate(instrs):
        if ins["op"] == "label" and ins["s"] in targets:
            lab = ins["s"]
            if recipe_R and lab in recipe_R:
                R[lab] = recipe_R[lab]
            elif j + 1 < len(instrs) and instrs[j + 1]["op"] == "proto":
                R[lab] = {"na": instrs[j + 1]["i"][0], "nr": instrs[j + 1]["i"][1]}
            elif registry:
                m = _LBL.match(lab)
                cands = set(registry.get(m.group(1), [])) if m else set()
                if len(cands) == 1:
                    na, nr = next(iter(cands))
                    R[lab] = {"na": na, "nr": nr}
    return R


def text_record(teal, version, mode, recipe_R=None, registry=None, tag=""):
    instrs, problems = tealtok.parse_program(teal)
    ins = [{k: v for k, v in i.items() if k != "ln"} for i in instrs]
    R = signatures(ins, recipe_R, registry)
    entries = [1] + [j + 1 for j, i in enumerate(ins) if i["op"] == "label" and i["s"] in R and i["s"] != "_"]
    return {"teal": ins, "R": R, "H": heights(ins, R, entries), "version": version, "mode": mode, "entries": entries,
            "problems": problems, "tag": tag}


def run(entries, name, spec="Spec", chunks=8, workers_per=2, timeout=1700):
    """entries: [{texts: [text_record]}]; returns (lines: list of (kind, idx, k, rest...), results, errors)"""
    if not entries:
        return [], [], []
    chunks = max(1, min(chunks, (len(entries) + 49) // 50))
    size = (len(entries) + chunks - 1) // chunks
    wd = tlc.workdir("static_" + name)
    cfg = "SPECIFICATION %s\nCHECK_DEADLOCK FALSE\n" % spec

    def one(ci):
        bf = os.path.join(wd, "batch_%s_%d.json" % (spec, ci))
        tlc.dump_json(bf, entries[ci * size:(ci + 1) * size])
        res = tlc.run_tlc("Static", cfg, wd, env={"BATCH_FILE": bf}, workers=workers_per, timeout=timeout, tag="%s%d" % (spec, ci), xmx="3g")
        os.remove(bf)
        return ci, res
    out, results, errors = set(), [], []
    with ThreadPoolExecutor(max_workers=chunks) as ex:
        for ci, res in ex.map(one, range(chunks)):
            results.append(res)
            if res.error:
                errors.append("chunk %d: %s\n%s" % (ci, res.error, tlc.tail(res, 20)))
            for line in res.out.splitlines():
                if line.startswith('"X|') or line.startswith('"L|'):
                    f = json.loads(line).split("|")
                    out.add((f[0], ci * size + int(f[1]) - 1, int(f[2])) + tuple(f[3:]))
    return sorted(out), results, errors
