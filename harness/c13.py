"""C13 - literals reach the program byte-for-byte.

spec -> code: TLC enumerates literal texts as strings over character classes (spec/LitGen.tla: quote, backslash,
the escape letters n r t x, hex digits, '/', ';', '#', parentheses, blank, LF, CR, other C0 controls, DEL, Latin-1,
2/3/4-byte UTF-8, plain); the harness concretises each class string to code points and builds Bytes(str),
Bytes(bytes), Bytes("base16"/"base32"/"base64", text) incl. ill-formed texts over the respective alphabets,
Int(n), Addr(text), MethodSignature(text).
code -> spec: the emitted TEAL text of  Pop(<literal>) ; Int(1)  is lexed character by character with the
assembler's line grammar in TLA+ (spec/TealLex.tla, judged by spec/Lex.tla): it must consist of exactly the
expected five statements (no injected statement, comment or separator) and the literal must decode to the
bytes / number the user wrote; ill-formed base16/32/64/address texts must be rejected at construction."""
import base64
import os
import random
import sys

sys.path.insert(0, os.path.dirname(os.path.abspath(__file__)))
import common  # noqa: E402
import lexrun  # noqa: E402
import replay  # noqa: E402
import tealtok  # noqa: E402
from findings import classify_c13  # noqa: E402

pt = replay.pt

STR_CLASSES = [
    ['"'], ['\\'], ['n'], ['r', 't'], ['x'], ['0', 'a', 'F', '9'], ['/'], [';'], ['#'], ['(', ')'], [' ', '\t'], ['\n'], ['\r'],
    ['\x00', '\x01', '\x1b', '\x7f'], ['\xa0', '\xe9', '\xff'], ['Ā', '€', '\U0001f600', '퟿'], ['b', 'Z', '_', '=', "'", '*'],
]
B64_CLASSES = [['A', 'Q'], ['g', 'z'], ['0', '9'], ['+'], ['/'], ['='], ['-', '_'], ['\n', ' '], ['!']]
B32_CLASSES = [['A', 'M'], ['2', '7'], ['='], ['a'], ['1', '8', '0'], [' ', '\n']]
HEX_CLASSES = [['0', '9'], ['a', 'f'], ['A', 'F'], ['g', 'x'], [' ', '\n']]


def compile_lit(expr):
    try:
        return pt.compileTeal(pt.Seq(pt.Pop(expr), pt.Int(1)), pt.Mode.Application, version=6), None
    except replay.PYTEAL_ERRORS as e:
        return None, type(e).__name__
    except Exception as e:  # noqa: BLE001
        return None, "crash:" + type(e).__name__


def concretise(cls_string, table, rnd):
    return "".join(rnd.choice(table[c - 1]) for c in cls_string)


def main():
    chk = common.Check("C13")
    tier, seed = common.tier(), common.seed()
    rnd = random.Random(seed)
    entries, desc = [], []

    def lit(expr_fn, spelling, op, want, what, **extra):
        try:
            expr = expr_fn()
        except replay.PYTEAL_ERRORS as e:
            chk.report("C13/rejected-valid/%s" % spelling, "well-formed literal rejected at construction: %r (%s)" % (what, type(e).__name__), {"literal": repr(what)})
            return
        except Exception as e:  # noqa: BLE001
            chk.report("C13/crash/%s/%s" % (spelling, type(e).__name__), "constructing %r raised %s" % (what, type(e).__name__), {"literal": repr(what)})
            return
        teal, err = compile_lit(expr)
        if teal is None:
            chk.report("C13/does-not-compile/%s" % spelling, "%r: %s" % (what, err), {"literal": repr(what)})
            return
        e = {"kind": "lit", "lines": lexrun.lines_of(teal), "op": list(op.encode()), "want": list(want), "spelling": spelling}
        e.update(extra)
        entries.append(e)
        desc.append((spelling, what, teal))

    def reject(ctor, spelling, text, wf=None):
        try:
            ctor()
            acc = 1
        except replay.PYTEAL_ERRORS:
            acc = 0
        except Exception as e:  # noqa: BLE001
            chk.report("C13/crash/%s/%s" % (spelling, type(e).__name__), "constructing %r raised %s" % (text, type(e).__name__), {"literal": repr(text)})
            return None
        e = {"kind": "reject", "spelling": spelling, "input": list(text.encode("utf-8", "surrogatepass")), "accepted": acc}
        if wf is not None:
            e["wf"] = 1 if wf else 0
        entries.append(e)
        desc.append((spelling + "-reject", text, ""))
        return acc

    # 1. Python strings over character classes (enumerated by TLC)
    strs, gres = lexrun.gen_class_strings(len(STR_CLASSES), 3 if tier == "quick" else 4, "str")
    chk.add_tlc(gres)
    if gres.error:
        chk.machinery_failure("LitGen failed: " + gres.error)
    if tier == "thorough" and len(strs) > 40000:
        strs = rnd.sample(strs, 40000)
    for cs in strs:
        for rep in range(2 if len(cs) <= 2 else 1):
            s = concretise(cs, STR_CLASSES, rnd)
            lit(lambda s=s: pt.Bytes(s), "str", "byte", s.encode("utf-8"), s)
    for n in (50, 300, 1000, 4000):
        s = "".join(rnd.choice(rnd.choice(STR_CLASSES)) for _ in range(n))
        lit(lambda s=s: pt.Bytes(s), "str", "byte", s.encode("utf-8"), s[:40] + "...")
    # 2. bytes / bytearray
    for n in list(range(0, 6)) + [31, 32, 33, 64, 255, 256, 1000]:
        for rep in range(3):
            raw = bytes(rnd.randrange(256) for _ in range(n))
            lit(lambda raw=raw: pt.Bytes(raw), "hex", "byte", raw, raw)
            lit(lambda raw=raw: pt.Bytes(bytearray(raw)), "hex", "byte", raw, raw)
    lit(lambda: pt.Bytes(bytes(range(256))), "hex", "byte", bytes(range(256)), "all-bytes")
    # 3. base16 / base32 / base64 texts: well formed ones must decode to the same bytes, ill formed ones are rejected
    for sp, name, table, maxlen in (("b64", "base64", B64_CLASSES, 4), ("b32", "base32", B32_CLASSES, 4), ("hex", "base16", HEX_CLASSES, 4)):
        css, r2 = lexrun.gen_class_strings(len(table), maxlen if tier == "quick" else maxlen + 1, sp)
        chk.add_tlc(r2)
        texts = set(concretise(cs, table, rnd) for cs in css)
        # longer well-formed and nearly well-formed texts
        for n in (1, 2, 3, 4, 5, 7, 8, 9, 16, 31, 32, 33):
            raw = bytes(rnd.randrange(256) for _ in range(n))
            good = {"b64": base64.b64encode(raw).decode(), "b32": base64.b32encode(raw).decode(), "hex": raw.hex()}[sp]
            texts |= {good, good.rstrip("="), good + "=", good[:-1], good + "\n", " " + good, good.lower(), good.upper(), good + good}
            if sp == "hex":
                texts |= {"0x" + good, "0X" + good}
        for text in sorted(texts):
            acc = reject(lambda text=text: pt.Bytes(name, text), sp, text[2:] if sp == "hex" and text[:2] == "0x" else text)
            if acc == 1:
                body = text[2:] if sp == "hex" and text[:2] == "0x" else text
                try:
                    want = {"b64": lambda t: base64.b64decode(t, validate=True), "b32": lambda t: base64.b32decode(t + "=" * ((-len(t)) % 8)),
                            "hex": bytes.fromhex}[sp](body)
                except Exception:  # noqa: BLE001
                    continue           # the reject entry above already judges this acceptance
                lit(lambda text=text: pt.Bytes(name, text), sp, "byte", want, (name, text))
    # 4. integers
    for v in (0, 1, 2, 127, 128, 255, 256, 2 ** 16, 2 ** 31, 2 ** 32, 2 ** 53 + 1, 2 ** 63, 2 ** 64 - 2, 2 ** 64 - 1):
        lit(lambda v=v: pt.Int(v), "int", "int", tealtok.digits(v), v)
    for v in (-1, 2 ** 64, 2 ** 64 + 1, 2 ** 70):
        try:
            pt.Int(v)
            chk.report("C13/int-out-of-range-accepted", "Int(%d) was accepted" % v, {"value": v})
        except replay.PYTEAL_ERRORS:
            pass
    # 5. addresses
    from algosdk import encoding
    for rep in range(8):
        pk = bytes(rnd.randrange(256) for _ in range(32)) if rep else bytes(32)
        a = encoding.encode_address(pk)
        lit(lambda a=a: pt.Addr(a), "addr", "addr", pk, a)
        bad_ck = a[:-1] + ("A" if a[-1] != "A" else "B")
        for text, wf in ((a, True), (a.lower(), False), (a[:-1], False), (a + "A", False), (bad_ck, False), (a[:10] + "1" + a[11:], False),
                         (a + "======", False), ("", False), (" " + a, False), (a + "\n", False)):
            reject(lambda text=text: pt.Addr(text), "addr", text, wf=wf)
    # 6. method signatures
    for sig in ("add(uint64,uint64)uint64", "f()void", "a(byte[],(uint8,bool)[3],string)address", "x(pay,account,asset)void", "m(uint512)ufixed128x10"):
        lit(lambda sig=sig: pt.MethodSignature(sig), "method", "method", tealtok.selector(sig), sig, sigtext=list(sig.encode()))
    for sig in ('a"b()void', "new\nline()void", "back\\slash()void", "sp ace()void", "sl//ash()void", "se;mi()void"):
        try:
            expr = pt.MethodSignature(sig)
        except replay.PYTEAL_ERRORS:
            continue                       # rejecting an odd signature text is fine
        teal, err = compile_lit(expr)
        if teal is not None:
            entries.append({"kind": "lit", "lines": lexrun.lines_of(teal), "op": list(b"method"), "want": list(tealtok.selector(sig)),
                            "spelling": "method", "sigtext": list(sig.encode())})
            desc.append(("method", sig, teal))

    verdicts, tres, errors = lexrun.run(entries, "c13")
    for r in tres:
        chk.add_tlc(r)
    for e in errors:
        chk.machinery_failure(e)
    kinds = {}
    for idx, c in sorted(verdicts.items()):
        sp, what, teal = desc[idx]
        kinds[sp] = kinds.get(sp, 0) + 1
        if c != "ok":
            key = classify_c13(sp, what, c) or "C13/%s/%s/%s" % (sp, c.split("=")[0], common.hashlib.sha1(repr(what).encode()).hexdigest()[:8])
            chk.report(key, "%s literal %r: %s" % (sp, what if not isinstance(what, (bytes, bytearray)) else bytes(what).hex(), c),
                       {"spelling": sp, "literal": repr(what), "teal": teal, "clause": c})
    for idx in (0, len(entries) // 2):
        if idx < len(desc):
            chk.sample({"literal": repr(desc[idx][1])[:80], "teal": desc[idx][2][:200], "verdict": verdicts.get(idx)})
    chk.cov["traces_validated_against_impl"] = len(entries)
    chk.cov["evaluations"] = len(entries)
    chk.cov["distinct_nontrivial"] = len(set((d[0], repr(d[1])) for d in desc))
    chk.notes.update({"by_kind": kinds, "class_strings": len(strs),
                      "rule": "class strings enumerated by TLC (LitGen.tla) and concretised with seeded choices; every literal is one evaluation; "
                              "non-trivial = distinct (kind, literal)"})
    chk.assumptions += ["TealLex.tla transcribes the assembler's line grammar and literal decoders", "selectors and address checksums are computed by the harness (hash functions)"]
    chk.finish()


if __name__ == "__main__":
    main()
