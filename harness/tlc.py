"""Thin driver around TLC: runs a module of /verif/spec with a generated cfg, collects
verdict lines and statistics.  Python is glue only: every judgement is made by TLC."""
import os
import re
import shutil
import subprocess
import time
import json

VERIF = os.path.dirname(os.path.dirname(os.path.abspath(__file__)))
SPEC = os.path.join(VERIF, "spec")
WORK = os.environ.get("VERIF_WORK") or os.path.join(VERIF, "work")
JAR = "/opt/veriftools/tla/tla2tools.jar:/opt/veriftools/tla/CommunityModules-deps.jar"


class MachineryError(Exception):
    pass


class TLCResult:
    def __init__(self):
        self.out = ""
        self.rc = None
        self.generated = 0
        self.distinct = 0
        self.wall = 0.0
        self.verdicts = []  # parsed V| lines: list of lists of fields
        self.invariant_violated = None
        self.error = None
        self.coverage = {}


_STATS = re.compile(r"(\d+) states generated, (\d+) distinct states found")


def workdir(name):
    # one directory per (purpose, check): several checks share generator streams and may be run side by side in one tree
    d = os.path.join(WORK, name + "." + os.environ.get("VERIF_CHECK_ID", "x"))
    if os.path.isdir(d):
        shutil.rmtree(d, ignore_errors=True)
    os.makedirs(d, exist_ok=True)
    return d


def run_tlc(module, cfg_text, wd, env=None, workers=4, timeout=1800, extra=(), xss="512m",
            xmx="6g", simulate=None, depth=None, seed=None, coverage=False, tag="tlc"):
    """Run TLC on spec/<module>.tla with the given cfg text.  Returns TLCResult."""
    cfg = os.path.join(wd, tag + ".cfg")
    with open(cfg, "w") as f:
        f.write(cfg_text)
    meta = os.path.join(wd, tag + ".meta")
    cmd = ["java", "-Xss" + xss, "-Xmx" + xmx, "-XX:+UseParallelGC",
           "-DTLA-Library=" + SPEC, "-cp", JAR, "tlc2.TLC",
           "-workers", str(workers), "-metadir", meta, "-noGenerateSpecTE",
           "-config", cfg]
    if simulate:
        cmd += ["-simulate", simulate]
    if depth:
        cmd += ["-depth", str(depth)]
    if seed is not None:
        cmd += ["-seed", str(seed)]
    if coverage:
        cmd += ["-coverage", "1"]
    cmd += list(extra)
    cmd += [os.path.join(SPEC, module + ".tla")]
    e = dict(os.environ)
    e.pop("JAVA_TOOL_OPTIONS", None)
    if env:
        e.update(env)
    t0 = time.time()
    res = TLCResult()
    logp = os.path.join(wd, tag + ".out")
    with open(logp, "w") as lf:
        try:
            p = subprocess.run(cmd, cwd=wd, env=e, stdout=lf, stderr=subprocess.STDOUT,
                               timeout=timeout)
            res.rc = p.returncode
        except subprocess.TimeoutExpired:
            res.rc = -9
            res.error = "timeout"
    res.wall = time.time() - t0
    with open(logp, errors="replace") as lf:
        res.out = lf.read()
    shutil.rmtree(meta, ignore_errors=True)
    for m in _STATS.finditer(res.out):
        res.generated, res.distinct = int(m.group(1)), int(m.group(2))
    for line in res.out.splitlines():
        line = line.strip()
        if line.startswith('"V|') and line.endswith('"'):
            res.verdicts.append(line[1:-1].split("|")[1:])
    m = re.search(r"Invariant (\S+) is violated", res.out)
    if m:
        res.invariant_violated = m.group(1)
    if res.error is None and res.rc not in (0, 12):
        # 12 = safety violation; anything else is a machinery problem unless an invariant is reported
        if not res.invariant_violated:
            res.error = "tlc exit %s" % res.rc
    return res


def dump_json(path, obj):
    with open(path, "w") as f:
        json.dump(obj, f, separators=(",", ":"))


def tail(res, n=40):
    return "\n".join(res.out.splitlines()[-n:])
