"""ARC4.tla type records (JSON) -> PyTeal TypeSpec / algosdk ABIType; runs spec/ARC4Gen.tla."""
import json

import replay
import tlc

pt = replay.pt
abi = pt.abi

_named_cache = {}


def field_names(nm, n):
    """field names of the named tuple class nm: classes A and B use the same names at different positions"""
    base = ["price", "qty", "note", "flag", "extra"][:n] + ["f%d" % j for j in range(5, n)]
    return base if nm != "B" else list(reversed(base))


def to_spec(t):
    k = t["k"]
    if k == "uint":
        return {8: abi.Uint8TypeSpec, 16: abi.Uint16TypeSpec, 32: abi.Uint32TypeSpec, 64: abi.Uint64TypeSpec}[t["n"]]()
    if k == "bool":
        return abi.BoolTypeSpec()
    if k == "byte":
        return abi.ByteTypeSpec()
    if k == "address":
        return abi.AddressTypeSpec()
    if k == "string":
        return abi.StringTypeSpec()
    if k == "sarray":
        return abi.StaticArrayTypeSpec(to_spec(t["e"]), t["n"])
    if k == "darray":
        return abi.DynamicArrayTypeSpec(to_spec(t["e"]))
    if k == "tuple":
        subs = [to_spec(e) for e in t["es"]]
        if t.get("nm"):
            key = (t["nm"], tuple(str(s) for s in subs))
            if key not in _named_cache:
                ns = {"__annotations__": {field_names(t["nm"], len(subs))[j]: abi.Field[s.annotation_type()] for j, s in enumerate(subs)}}
                _named_cache[key] = type("NT_" + t["nm"], (abi.NamedTuple,), ns)
            return _named_cache[key]().type_spec()
        return abi.TupleTypeSpec(*subs)
    if k == "ref":
        return {"account": abi.AccountTypeSpec, "asset": abi.AssetTypeSpec, "application": abi.ApplicationTypeSpec}[t["s"]]()
    if k == "txn":
        return {"txn": abi.TransactionTypeSpec, "pay": abi.PaymentTransactionTypeSpec, "axfer": abi.AssetTransferTransactionTypeSpec,
                "appl": abi.ApplicationCallTransactionTypeSpec}[t["s"]]()
    raise ValueError(k)


def py_value(t, v):
    """ARC4.tla sample value -> Python value accepted by algosdk's encoder"""
    k = t["k"]
    if k == "uint":
        n = 0
        for d in v:
            n = n * 256 + d
        return n
    if k == "bool":
        return bool(v)
    if k == "byte":
        return v
    if k == "address":
        return bytes(v)
    if k == "string":
        return bytes(v).decode("latin-1")
    if k in ("sarray", "darray"):
        return [py_value(t["e"], x) for x in v]
    if k == "tuple":
        return [py_value(e, x) for e, x in zip(t["es"], v)]
    raise ValueError(k)


def gen(universe, nvals, name):
    wd = tlc.workdir("arc4gen_" + name)
    cfg = 'SPECIFICATION Spec\nCONSTANTS Base = 256\nWD = 8\nUniverse = "%s"\nNVals = %d\nCHECK_DEADLOCK FALSE\n' % (universe, nvals)
    res = tlc.run_tlc("ARC4Gen", cfg, wd, workers=8, timeout=1500, xss="64m")
    out, seen = [], set()
    for line in res.out.splitlines():
        if line.startswith('"T|') and line not in seen:
            seen.add(line)
            out.append(json.loads(json.loads(line)[2:]))
    out.sort(key=lambda d: d["sig"] + json.dumps(d["t"], sort_keys=True))
    return out, res
