"""C06 - ABI values assembled in PyTeal encode exactly per ARC-4.

spec -> code: TLC enumerates the type universes of spec/ARC4Gen.tla (level 1: every basic type, arrays of 1/2/3/8/9
elements, tuples up to 3 members, bool runs of 7/8/9/16/17; level 2: nested shapes) with, per type, its signature
string, dynamic-ness, static length, sample values and their reference encodings - all computed in TLA+ from the
ARC-4 rules of spec/ARC4.tla.  For each (type, value) the harness builds the PyTeal program that assembles the value
from its parts with set(...) and logs encode(), in the main routine (scratch slots) and inside a subroutine (frame
variables at version 8+).
code -> spec: TLC runs the emitted TEAL on spec/AVM.tla and compares with the expected behaviour "log the reference
encoding, approve" (spec/Refine.tla); type-level facts of PyTeal and of the algosdk reference codec are compared
with the TLA+ values; integer literals that do not fit are rejected at build, expression operands that do not fit
make the program fail (run for uint8/16/32 over boundary arguments)."""
import os
import random
import sys

sys.path.insert(0, os.path.dirname(os.path.abspath(__file__)))
import abiprog  # noqa: E402
import abitypes  # noqa: E402
import batch  # noqa: E402
import common  # noqa: E402
import pipeline  # noqa: E402
import streams  # noqa: E402
from streams import N  # noqa: E402

pt = abitypes.pt
abi = pt.abi


def sdk_type(sig):
    import algosdk.abi
    return algosdk.abi.ABIType.from_string(sig)


def main():
    if os.environ.get("VERIF_REPLAY"):
        print("replay: re-run ./check C06 (programs are rebuilt from the type universe)")
        sys.exit(0)
    chk = common.Check("C06")
    tier, seed = common.tier(), common.seed()
    rnd = random.Random(seed)
    types, g1 = abitypes.gen("level1", 3 if tier == "quick" else 5, "c06a")
    t2, g2 = abitypes.gen("level2", 2 if tier == "quick" else 4, "c06b")
    t3, g3 = abitypes.gen("strings", 5, "c06c")          # strings of 254..510 bytes (length prefix around one byte)
    chk.add_tlc(g3)
    if g3.error or not t3:
        chk.machinery_failure("ARC4Gen (strings) failed: %s" % g3.error)
    for g in (g1, g2):
        chk.add_tlc(g)
        if g.error:
            chk.machinery_failure("ARC4Gen failed: %s %s" % (g.error, g.out[-600:]))
    if tier == "quick":
        t2 = rnd.sample(t2, min(len(t2), 60))
    types += t2
    types += t3
    # ---- type-level facts: TLA+ vs PyTeal vs algosdk
    facts = 0
    for d in types:
        spec = abitypes.to_spec(d["t"])
        st = sdk_type(d["sig"])
        mine = (d["sig"], bool(d["dyn"]), None if d["dyn"] else d["slen"])
        theirs = (str(spec), spec.is_dynamic(), None if spec.is_dynamic() else spec.byte_length_static())
        ref = (str(st), st.is_dynamic(), None if st.is_dynamic() else st.byte_len())
        facts += 1
        if mine != ref:
            chk.machinery_failure("ARC4.tla disagrees with the reference codec on %s: %r vs %r" % (d["sig"], mine, ref))
        if theirs != mine:
            chk.report("C06/type-facts/%s" % d["sig"], "PyTeal says %r, ARC-4 says %r" % (theirs, mine), {"type": d["t"]})
        for val in d["vals"]:
            enc = bytes(val["enc"])
            if st.encode(abitypes.py_value(d["t"], val["v"])) != enc:
                chk.machinery_failure("ARC4.tla encoding of %s differs from the reference codec for %r" % (d["sig"], val["v"]))
    # ---- encode programs
    jobs = []       # (descr, expected recipe, ast builder args)
    for d in types:
        for j, val in enumerate(d["vals"]):
            for in_sub in (False, True):
                if tier == "quick" and in_sub and j > 0:
                    continue
                for leaf_mode in (("literal",) if (j % 2 == 0 or tier == "quick") else ("literal", "expr")):
                    jobs.append((d, j, in_sub, leaf_mode))
    entries, metas, descr = [], [], []
    versions = (6, 8, 9) if tier == "quick" else (5, 6, 7, 8, 9, 10)
    for d, j, in_sub, leaf_mode in jobs:
        val = d["vals"][j]
        rs = []
        for v in versions:
            try:
                ast = abiprog.encode_program(d["t"], val["v"], in_sub, leaf_mode)
            except abitypes.replay.PYTEAL_ERRORS as e:
                chk.report("C06/build-rejected/%s" % d["sig"], "assembling %s from %r raised %s" % (d["sig"], val["v"], e), {"type": d["t"]})
                break
            r = abiprog.compile_ast(ast, v)
            r["st"] = {"v": v}
            rs.append(r)
            if "teal" not in r:
                chk.report("C06/does-not-compile/%s/%s" % (d["sig"], r["err"]), "%s at v%d: %s" % (d["sig"], v, r.get("msg")), {"type": d["t"], "value": val["v"]})
        prog = abiprog.expect_log([val["enc"]])
        e, meta = pipeline.make_entry(len(entries) + 1, prog, rs, batch.default_cx(prog))
        if e["texts"]:
            entries.append(e)
            metas.append(meta)
            descr.append("%s value#%d %s %s" % (d["sig"], j, "subroutine" if in_sub else "main", leaf_mode))
    # ---- range checks: literal out of range rejected, expression out of range fails
    for bits, cls in ((8, abi.Uint8), (16, abi.Uint16), (32, abi.Uint32), (64, abi.Uint64)):
        for bad in (2 ** bits, 2 ** bits + 1, -1):
            try:
                cls().set(bad)
                chk.report("C06/literal-out-of-range-accepted/uint%d" % bits, "uint%d.set(%d) accepted" % (bits, bad), {"bits": bits, "value": bad})
            except abitypes.replay.PYTEAL_ERRORS:
                pass
        # an Int literal that does not fit: refused when built / compiled, or the program fails - never a truncated encoding
        for bad in ((2 ** bits, 2 ** bits + 5, 70000 if bits == 16 else 2 ** 63) if bits < 64 else ()):
            fails = {"main": N("Seq", "u", a=[N("Err", "n"), N("Int", n=[1])]), "rt": [], "vars": [], "mode": "app"}
            rs = []
            try:
                x = cls()
                ast = pt.Seq(x.set(pt.Int(bad)), pt.Log(x.encode()), pt.Int(1))
                for v in versions:
                    r = abiprog.compile_ast(ast, v)
                    r["st"] = {"v": v}
                    rs.append(r)
            except abitypes.replay.PYTEAL_ERRORS:
                rs = []
            if any("teal" in r for r in rs):
                e, meta = pipeline.make_entry(len(entries) + 1, fails, rs, batch.default_cx(fails))
                entries.append(e)
                metas.append(meta)
                descr.append("uint%d set from the literal Int(%d)" % (bits, bad))
        if bits < 64:
            x = cls()
            ast = pt.Seq(x.set(pt.Btoi(pt.Txn.application_args[0])), pt.Log(x.encode()), pt.Int(1))
            argu = streams.argu(0)
            recipe = {"main": N("Seq", "u", a=[
                N("If", "n", a=[N("Op", s="<", a=[argu, N("Int", n=[1] + [0] * (bits // 8))]),
                                N("Log", "n", a=[N("Suffix", "b", a=[N("Op", "b", s="itob", a=[streams.argu(0)]), N("Int", n=[8 - bits // 8])])]),
                                N("Err", "n")]), N("Int", n=[1])]), "rt": [], "vars": [], "mode": "app"}
            rs = []
            for v in versions:
                r = abiprog.compile_ast(ast, v)
                r["st"] = {"v": v}
                rs.append(r)
            cx = batch.default_cx(recipe, args=["w8"])
            e, meta = pipeline.make_entry(len(entries) + 1, recipe, rs, cx)
            entries.append(e)
            metas.append(meta)
            descr.append("uint%d set from an expression, boundary arguments" % bits)
    verdicts, tres, errors = pipeline.run_refine(entries, "c06", max_steps=20000, chunks=8, workers_per=2)
    for r in tres:
        chk.add_tlc(r)
    for er in errors:
        chk.machinery_failure(er)
    missing = pipeline.expected_keys(entries) - set(verdicts)
    if missing and not errors:
        chk.machinery_failure("%d verdicts missing e.g. %r" % (len(missing), sorted(missing)[:3]))
    shapes = set()
    for (idx, cid, k), v in sorted(verdicts.items()):
        if v[3] == "ok":
            shapes.add(descr[idx].split(" ")[0])
        elif v[3] != "inconclusive":
            chk.report("C06/%s/%s" % (v[3], descr[idx]), "%s compiled as %s: ARC-4 says %s, TEAL run %s" % (
                descr[idx], ",".join(metas[idx][k - 1]["tags"]), v[4], v[5]),
                {"what": descr[idx], "st": metas[idx][k - 1]["st"], "verdict": v, "text": metas[idx][k - 1]["text"][:5000],
                 "expected": entries[idx]["recipe"]})
    if entries:
        chk.sample({"what": descr[0], "expected_log": entries[0]["recipe"]["main"]["a"][0]["a"][0]["n"], "teal": metas[0][0]["text"][:600]})
        chk.sample({"what": descr[len(descr) // 2], "verdict": [v for (i, c, k), v in verdicts.items() if i == len(descr) // 2][:1]})
    chk.cov["traces_validated_against_impl"] = sum(len(e["texts"]) for e in entries) + facts
    chk.cov["evaluations"] = len(verdicts) + facts
    chk.cov["distinct_nontrivial"] = len(shapes)
    chk.notes.update({"types": len(types), "type_fact_comparisons": facts, "encode_programs": len(entries),
                      "inconclusive": sum(1 for v in verdicts.values() if v[3] == "inconclusive"),
                      "rule": "type universes of ARC4Gen.tla enumerated by TLC (level 2 sampled in quick); sample values per type from "
                              "ARC4!Val; non-trivial = distinct type signature whose encode program ran to the reference bytes"})
    chk.assumptions += ["ARC4.tla encoding (cross-checked against algosdk.abi on every value used)", "AVM.tla byte-slice opcodes"]
    chk.finish()


if __name__ == "__main__":
    main()
