"""Flat operator sweep for C01: every value-level constructor the source semantics covers, applied to operands taken from
application arguments (so that one compiled program is run over a boundary-value domain), plus constant-operand forms
whose lowering depends on the constant (Substring / Extract / Suffix around 255/256, n-ary forms with 1 and 3+ operands,
constant and computed array indices), MaybeValue users read in both orders and inner-transaction builders."""
from streams import N, argu

U6, B4 = "u6", "b4"


def argb(j):
    return N("TxnA", "b", s="ApplicationArgs", i=[j])


def prog(main, argdoms):
    return {"main": main, "rt": [], "vars": [], "mode": "app", "argdoms": argdoms}


def ret_u(e):
    return e


def ret_b(e):
    """bytes results are made observable through a log"""
    return N("Seq", "u", a=[N("Log", "n", a=[e]), N("Int", n=[1])])


UU = ["+", "-", "*", "/", "%", "<", ">", "<=", ">=", "&&", "||", "==", "!=", "|", "&", "^", "shl", "shr", "exp"]
U1 = ["!", "~", "sqrt", "bitlen"]
U1B = ["itob", "bzero"]
B1U = ["len", "btoi"]
B1B = ["b~", "sha256", "bsqrt", "keccak256", "sha512_256", "sha3_256"]
BBB = ["concat", "b+", "b-", "b*", "b/", "b%", "b|", "b&", "b^"]
BBU = ["b<", "b>", "b<=", "b>=", "b==", "b!="]
BUU = ["getbyte", "extract_uint16", "extract_uint32", "extract_uint64"]


def programs():
    out = []
    a0, a1, a2 = argu(0), argu(1), argu(2)
    for op in UU:
        for sp in (0, 1):
            nd = N("Op", "u", s=op, a=[argu(0), argu(1)])
            nd["sp"] = sp
            out.append(("%s(u,u)%s" % (op, " overloaded" if sp else ""), prog(ret_u(nd), ["u6", "u6"])))
    for op in U1:
        out.append(("%s(u)" % op, prog(ret_u(N("Op", "u", s=op, a=[argu(0)])), ["w8"])))
    for op in U1B:
        out.append(("%s(u)" % op, prog(ret_b(N("Op", "b", s=op, a=[argu(0)])), ["u6" if op == "bzero" else "w8"])))
    for op in B1U:
        out.append(("%s(b)" % op, prog(ret_u(N("Op", "u", s=op, a=[argb(0)])), ["b4"])))
    for op in B1B:
        out.append(("%s(b)" % op, prog(ret_b(N("Op", "b", s=op, a=[argb(0)])), ["b4"])))
    for op in BBB:
        out.append(("%s(b,b)" % op, prog(ret_b(N("Op", "b", s=op, a=[argb(0), argb(1)])), ["b4", "b4"])))
    for op in BBU:
        out.append(("%s(b,b)" % op, prog(ret_u(N("Op", "u", s=op, a=[argb(0), argb(1)])), ["b4", "b4"])))
    for op in BUU:
        out.append(("%s(b,u)" % op, prog(ret_u(N("Op", "u", s=op, a=[argb(0), argu(1)])), ["b4", "u4"])))
    out.append(("getbit(u,u)", prog(N("Op", "u", s="getbit", a=[argu(0), argu(1)]), ["w8", "u6"])))
    out.append(("getbit(b,u)", prog(N("Op", "u", s="getbit", a=[argb(0), argu(1)]), ["b4", "u6"])))
    out.append(("setbit(u,u,u)", prog(N("Op", "u", s="setbit", a=[argu(0), argu(1), argu(2)]), ["w4", "u4", "u3"])))
    out.append(("setbit(b,u,u)", prog(ret_b(N("Op", "b", s="setbit", a=[argb(0), argu(1), argu(2)])), ["b4", "u4", "u3"])))
    out.append(("setbyte(b,u,u)", prog(ret_b(N("Op", "b", s="setbyte", a=[argb(0), argu(1), argu(2)])), ["b4", "u4", "u6"])))
    out.append(("divw(u,u,u)", prog(N("Op", "u", s="divw", a=[argu(0), argu(1), argu(2)]), ["w4", "w4", "w4"])))
    # n-ary forms: one operand, three and four operands (left fold, every operand evaluated)
    for op, t, dom in (("+", "u", "u6"), ("*", "u", "w4"), ("&&", "u", "u4"), ("||", "u", "u4"), ("concat", "b", "b4")):
        mk = argu if t == "u" else argb
        for n in (1, 3, 4):
            if n == 1 and op == "concat":
                continue
            nd = N("Nary", t, s=op, a=[mk(j) for j in range(n)])
            out.append(("%s n-ary %d" % (op, n), prog(ret_u(nd) if t == "u" else ret_b(nd), [dom] * n)))
    # slices: computed operands and constants on both sides of every 255/256 decision, zero lengths
    for kind in ("Substring", "Extract"):
        out.append(("%s(b,u,u)" % kind, prog(ret_b(N(kind, "b", a=[argb(0), argu(1), argu(2)])), ["b4", "u4", "u4"])))
        for s_, e_ in ((0, 0), (0, 1), (1, 3), (2, 2), (0, 255), (0, 256), (255, 255), (255, 256), (256, 300), (3, 1)):
            big = N("Op", "b", s="bzero", a=[N("Int", n=[2, 88])])            # 600 zero bytes
            src = N("Op", "b", s="concat", a=[argb(0), big])
            out.append(("%s const %d,%d" % (kind, s_, e_), prog(ret_b(N(kind, "b", a=[src, N("Int", n=_d(s_)), N("Int", n=_d(e_))])), ["b4"])))
    out.append(("Suffix(b,u)", prog(ret_b(N("Suffix", "b", a=[argb(0), argu(1)])), ["b4", "u4"])))
    for s_ in (0, 1, 9, 255, 256):
        big = N("Op", "b", s="bzero", a=[N("Int", n=[2, 88])])
        out.append(("Suffix const %d" % s_, prog(ret_b(N("Suffix", "b", a=[N("Op", "b", s="concat", a=[argb(0), big]), N("Int", n=_d(s_))])), ["b4"])))
    out.append(("Replace(b,u,b)", prog(ret_b(N("Replace", "b", a=[argb(0), argu(1), argb(2)])), ["b4", "u4", "b3"])))
    # transaction / global reads with constant and computed indices
    out.append(("Txn.application_args[computed]", prog(ret_b(N("TxnAS", "b", s="ApplicationArgs", a=[argu(0)])), ["u4", "b3"])))
    out.append(("Txn.accounts[0..2]", prog(ret_b(N("Nary", "b", s="concat", a=[N("TxnA", "b", s="Accounts", i=[j]) for j in range(3)])), [])))
    out.append(("Txn.accounts[computed]", prog(ret_b(N("TxnAS", "b", s="Accounts", a=[argu(0)])), ["u4"])))
    out.append(("Txn.assets[computed]", prog(N("TxnAS", "u", s="Assets", a=[argu(0)]), ["u4"])))
    out.append(("Txn fields", prog(ret_b(N("Nary", "b", s="concat", a=[N("Txn", "b", s="Sender"), N("Op", "b", s="itob", a=[N("Txn", "u", s="Fee")]),
                                                                        N("Op", "b", s="itob", a=[N("Txn", "u", s="TypeEnum")]), N("Txn", "b", s="Note")])), ["b3"])))
    out.append(("Global fields", prog(N("Nary", "u", s="+", a=[N("Global", "u", s="GroupSize"), N("Global", "u", s="Round"), N("Global", "u", s="MinTxnFee")]), [])))
    out.append(("Gtxn[computed].amount", prog(N("GtxnS", "u", s="Amount", a=[argu(0)]), ["u4"])))
    out.append(("Gtxn[1].application_args[computed]", prog(ret_b(N("GtxnAS", "b", s="ApplicationArgs", a=[argu(0)], i=[1])), ["u4", "b3"])))
    out.append(("Gtxn[computed].application_args[1]", prog(ret_b(N("GtxnSA", "b", s="ApplicationArgs", a=[argu(0)], i=[1])), ["u4", "b3"])))
    out.append(("Gtxn[computed].application_args[computed]", prog(ret_b(N("GtxnSAS", "b", s="ApplicationArgs", a=[argu(0), argu(1)])), ["u4", "u4"])))
    out.append(("Gtxn[computed].accounts[computed]", prog(ret_b(N("GtxnSAS", "b", s="Accounts", a=[argu(0), argu(1)])), ["u4", "u4"])))
    # MaybeValue: both results of ONE evaluation, read in either order
    for order in ("has-first", "value-first"):
        mv = N("MV", "n", s="GGetEx", a=[N("Int", n=[]), N("Bytes", "b", n=[107])], i=[1])
        has, val = N("MVHas", "u", i=[1]), N("MVVal", "a", i=[1])
        body = [mv, N("Log", "n", a=[N("Op", "b", s="itob", a=[has])]), N("Pop", "n", a=[val]), N("Int", n=[1])] if order == "has-first" else \
            [mv, N("Pop", "n", a=[val]), N("Log", "n", a=[N("Op", "b", s="itob", a=[has])]), N("Int", n=[1])]
        p = prog(N("Seq", "u", a=body), [])
        p["gss"] = True
        out.append(("globalGetEx " + order, p))
    # boxes (version 8): create / put / get / length / delete / extract / replace, on present and absent boxes, sizes that (mis)match
    name = N("Bytes", "b", n=[98, 120])
    itob = lambda e: N("Op", "b", s="itob", a=[e])      # noqa: E731
    logu = lambda e: N("Log", "n", a=[itob(e)])         # noqa: E731
    mvget = N("MV", "n", s="BoxGet", a=[name], i=[1])
    mvlen = N("MV", "n", s="BoxLen", a=[name], i=[2])
    out.append(("box create/put/get", prog(N("Seq", "u", a=[
        logu(N("BoxCreate", "u", a=[name, argu(0)])), N("BoxPut", "n", a=[name, argb(1)]), mvget,
        N("Log", "n", a=[N("MVVal", "b", i=[1])]), logu(N("MVHas", "u", i=[1])), N("Int", n=[1])]), ["u4", "b4"])))
    out.append(("box create twice", prog(N("Seq", "u", a=[
        logu(N("BoxCreate", "u", a=[name, argu(0)])), logu(N("BoxCreate", "u", a=[name, argu(1)])), N("Int", n=[1])]), ["u4", "u4"])))
    out.append(("box length/delete", prog(N("Seq", "u", a=[
        mvlen, logu(N("MVHas", "u", i=[2])), logu(N("MVVal", "u", i=[2])), logu(N("BoxDel", "u", a=[name])),
        N("Pop", "n", a=[N("BoxCreate", "u", a=[name, argu(0)])]), N("MV", "n", s="BoxLen", a=[name], i=[3]),
        logu(N("MVVal", "u", i=[3])), logu(N("BoxDel", "u", a=[name])), logu(N("BoxDel", "u", a=[name])), N("Int", n=[1])]), ["u4"])))
    out.append(("box put/replace/extract", prog(N("Seq", "u", a=[
        N("BoxPut", "n", a=[name, N("Op", "b", s="concat", a=[argb(0), N("Bytes", "b", n=[1, 2, 3, 4, 5, 6])])]),
        N("BoxReplace", "n", a=[name, argu(1), argb(2)]), N("Log", "n", a=[N("BoxExtract", "b", a=[name, argu(1), argu(3)])]),
        N("MV", "n", s="BoxGet", a=[name], i=[4]), N("Log", "n", a=[N("MVVal", "b", i=[4])]), N("Int", n=[1])]), ["b3", "u6", "b3", "u4"])))
    out.append(("box extract/replace of an absent box", prog(N("Seq", "u", a=[
        N("If", "n", a=[argu(0), N("BoxReplace", "n", a=[name, N("Int", n=[]), argb(1)]), N("Log", "n", a=[N("BoxExtract", "b", a=[name, N("Int", n=[]), N("Int", n=[1])])])]),
        N("Int", n=[1])]), ["u4", "b3"])))
    # inner transactions: fields in order, two transactions in one group, array fields appended
    itx = [N("ItxBegin", "n"), N("ItxField", "n", s="TypeEnum", a=[N("Int", n=[1])]), N("ItxField", "n", s="Amount", a=[argu(0)]),
           N("ItxField", "n", s="Receiver", a=[N("Txn", "b", s="Sender")]), N("ItxNext", "n"),
           N("ItxField", "n", s="TypeEnum", a=[N("Int", n=[6])]), N("ItxField", "n", s="ApplicationID", a=[argu(0)]),
           N("ItxField", "n", s="Note", a=[argb(1)]), N("ItxSubmit", "n"), N("Int", n=[1])]
    out.append(("InnerTxnBuilder group", prog(N("Seq", "u", a=itx), ["u4", "b3"])))
    return out


def _d(n):
    ds = []
    while n:
        ds.append(n % 256)
        n //= 256
    return ds[::-1]
