"""C15 - source maps are faithful and never perturb the program.

spec -> code: (a) TLC enumerates mapping streams (spec/R3Gen.tla: maps of up to 2 lines / 2 segments over boundary values -
zero, negative and multi-group VLQ deltas, several sources); each is pushed through the real R3SourceMap.to_json and
from_json.  (b) generated source FILES (one marker constant per line; nested constructs, subroutines, a second module,
a long file) are compiled with and without source map under several versions and annotate options.
code -> spec: spec/SourceMapR3.tla (encoder and decoder register machines for the Revision-3 "mappings" text) judges:
for streams, real encoding = specified encoding and real decoding = the stream; for PyTeal maps, the JSON "mappings"
decodes to exactly one entry per TEAL line, in order, equal to the in-memory association, pointing at an existing line of
an existing file, with every marker constant attributed to the file and line the generator wrote it on.  TEAL with map
must equal TEAL without (bytes), and annotated TEAL with comments removed (spec/TealLex.tla, spec/Lex.tla) must equal
the plain TEAL."""
import json
import os
import random
import shutil
import subprocess
import sys

sys.path.insert(0, os.path.dirname(os.path.abspath(__file__)))
import common  # noqa: E402
import lexrun  # noqa: E402
import tlc  # noqa: E402

HERE = os.path.dirname(os.path.abspath(__file__))


def gen_streams(name):
    wd = tlc.workdir("r3gen_" + name)
    res = tlc.run_tlc("R3Gen", "SPECIFICATION Spec\nCHECK_DEADLOCK FALSE\n", wd, workers=8, timeout=900, xss="16m")
    out = sorted(set(line for line in res.out.splitlines() if line.startswith('"M|')))
    return [json.loads(json.loads(line)[2:]) for line in out], res


def run_r3(entries, name):
    from concurrent.futures import ThreadPoolExecutor
    chunks = max(1, min(8, len(entries) // 300))
    size = (len(entries) + chunks - 1) // chunks
    wd = tlc.workdir("r3_" + name)

    def one(ci):
        bf = os.path.join(wd, "batch_%d.json" % ci)
        tlc.dump_json(bf, entries[ci * size:(ci + 1) * size])
        res = tlc.run_tlc("SourceMapR3", "SPECIFICATION Spec\nCHECK_DEADLOCK FALSE\n", wd, env={"BATCH_FILE": bf}, workers=2, timeout=1500, tag="chunk%d" % ci, xmx="3g")
        os.remove(bf)
        return ci, res
    verdicts, results, errors = {}, [], []
    with ThreadPoolExecutor(max_workers=chunks) as ex:
        for ci, res in ex.map(one, range(chunks)):
            results.append(res)
            if res.error:
                errors.append("chunk %d: %s\n%s" % (ci, res.error, tlc.tail(res, 20)))
            for v in res.verdicts:
                verdicts[ci * size + int(v[0]) - 1] = v[1]
    if len(verdicts) != len(entries) and not errors:
        errors.append("%d verdicts missing" % (len(entries) - len(verdicts)))
    return verdicts, results, errors


# ---- generated source files ---------------------------------------------------------------------------
def write_sources(root, rnd, variant):
    """writes helper.py and main.py under root; returns marker -> (file, line)"""
    os.makedirs(root, exist_ok=True)
    marks = {}
    counter = [1000]

    def m(lines, fname, text):
        """appends a source line containing exactly one fresh marker constant"""
        counter[0] += 1
        lines.append(text.replace("@", "pt.Int(%d)" % counter[0]))
        marks[counter[0]] = (fname, len(lines))
    h = ["import pyteal as pt", "", "@pt.Subroutine(pt.TealType.uint64)", "def helper(a):"]
    h.append("    return pt.Seq(")
    m(h, "helper.py", "        pt.Pop(@),")
    m(h, "helper.py", "        a + @,")
    h.append("    )")
    h += ["", "def block(x):", "    return pt.Seq("]
    m(h, "helper.py", "        x.store(@),")
    m(h, "helper.py", "        pt.If(x.load() > @).Then(")
    m(h, "helper.py", "            pt.Pop(@)")
    h.append("        ).Else(")
    m(h, "helper.py", "            x.store(x.load() + @)")
    h.append("        ),")
    h.append("    )")
    main = ["import pyteal as pt", "import helper", ""]
    if variant == "long":
        main += ["# filler line %d" % j for j in range(4200)]
    main += ["def build():", "    x = pt.ScratchVar()", "    y = pt.ScratchVar()", "    return pt.Seq("]
    main.append("        helper.block(x),")
    m(main, "main.py", "        y.store(@),")
    m(main, "main.py", "        pt.While(y.load() < @).Do(")
    m(main, "main.py", "            y.store(y.load() + @),")
    for _ in range(rnd.choice((0, 1, 3))):
        m(main, "main.py", "            pt.Pop(@),")
    main.append("        ),")
    m(main, "main.py", "        pt.Assert(helper.helper(@) > ")
    m(main, "main.py", "                  @),")
    if variant == "repeat":          # constants used twice each: with assemble_constants they live in the constant block
        for _ in range(7):
            m(main, "main.py", "        pt.Pop(@ + @),")
    if variant == "cond":
        main.append("        pt.Pop(pt.Cond(")
        m(main, "main.py", "            [x.load() == @, ")
        m(main, "main.py", "             @],")
        m(main, "main.py", "            [pt.Int(1), @])),")
    m(main, "main.py", "        pt.Return(@),")
    main.append("    )")
    with open(os.path.join(root, "helper.py"), "w") as f:
        f.write("\n".join(h) + "\n")
    with open(os.path.join(root, "main.py"), "w") as f:
        f.write("\n".join(main) + "\n")
    return marks


def write_router_sources(root, rnd):
    """helper.py (as above) and rmain.py: a Router whose method bodies and a subroutine they call carry the markers"""
    marks = write_sources(root, rnd, "plain")
    marks = {k: v for k, v in marks.items() if v[0] == "helper.py"}
    counter = [2000]
    r = ["import pyteal as pt", "import helper", "", "", "def build():",
         "    router = pt.Router('gen', pt.BareCallActions(no_op=pt.OnCompleteAction.create_only(pt.Approve())), clear_state=pt.Approve())", ""]

    def m(text):
        counter[0] += 1
        r.append(text.replace("@", "pt.Int(%d)" % counter[0]))
        marks[counter[0]] = ("rmain.py", len(r))
    r += ["    @router.method", "    def first(a: pt.abi.Uint64, *, output: pt.abi.Uint64):", "        return pt.Seq("]
    m("            pt.Assert(a.get() > @),")
    m("            pt.Pop(helper.helper(@)),")
    m("            output.set(a.get() + @),")
    r += ["        )", "", "    @router.method(no_op=pt.CallConfig.CALL, opt_in=pt.CallConfig.CALL)", "    def second(b: pt.abi.Uint64, c: pt.abi.String):",
          "        x = pt.ScratchVar()", "        return pt.Seq("]
    m("            x.store(@),")
    m("            pt.If(b.get() > @).Then(")
    m("                pt.Pop(c.length() + @)")
    r.append("            ),")
    m("            pt.Pop(pt.Cond([x.load(), @],")
    m("                           [pt.Int(1), @])),")
    for _ in range(rnd.choice((0, 2))):
        m("            pt.Pop(@),")
    r += ["        )", "", "    return router"]
    with open(os.path.join(root, "rmain.py"), "w") as f:
        f.write("\n".join(r) + "\n")
    return marks


def count_lines(path):
    try:
        with open(path) as f:
            return len(f.read().split("\n")) - 1
    except OSError:
        return 0


CHILD = r'''
import sys, json, os
sys.path.insert(0, os.environ.get("VERIF_REPO", "/repo")); sys.path.insert(0, os.getcwd())
from feature_gates import FeatureGates
FeatureGates.set_sourcemap_enabled(True)
import pyteal as pt
import main
out = []
for spec in json.loads(sys.argv[1]):
    v, ann, hdr, conc, ac = spec
    ast = main.build()          # the same expression object is compiled without and with a source map
    plain = pt.compileTeal(ast, pt.Mode.Application, version=v, assembleConstants=ac)
    c = pt.Compilation(ast, pt.Mode.Application, version=v, assemble_constants=ac)
    b = c.compile(with_sourcemap=True, teal_filename="out.teal", annotate_teal=ann, annotate_teal_headers=hdr, annotate_teal_concise=conc)
    r3 = b.sourcemap.r3_sourcemap
    j = r3.to_json()
    back = pt.R3SourceMap.from_json(j, target="\n".join(r3.file_lines))
    mem = []
    for k in range(len(b.teal.split("\n"))):
        e = r3.entries.get((k, 0))
        mem.append(None if e is None else {"file": e.source, "sline": e.source_line, "scol": e.source_column})
    out.append({"spec": spec, "teal": b.teal, "plain": plain, "json": j, "mem": mem, "nentries": len(r3.entries),
                "annotated": b.sourcemap.annotated_teal if ann else None,
                "back_equal": sorted((k, (e.source, e.source_line, e.source_column)) for k, e in back.entries.items())
                              == sorted((k, (e.source, e.source_line, e.source_column)) for k, e in r3.entries.items())})
print(json.dumps(out))
'''


RCHILD = r'''
import sys, json, os
sys.path.insert(0, os.environ.get("VERIF_REPO", "/repo")); sys.path.insert(0, os.getcwd())
from feature_gates import FeatureGates
FeatureGates.set_sourcemap_enabled(True)
import pyteal as pt
import rmain
out = []
for spec in json.loads(sys.argv[1]):
    v, ann, hdr, conc, ac = spec
    res = rmain.build().compile(version=v, assemble_constants=ac, with_sourcemaps=True, approval_filename="a.teal", clear_filename="c.teal",
                                annotate_teal=ann, annotate_teal_headers=hdr, annotate_teal_concise=conc)
    sm = res.approval_sourcemap
    r3 = sm.r3_sourcemap
    j = r3.to_json()
    back = pt.R3SourceMap.from_json(j, target="\n".join(r3.file_lines))
    teal = res.approval_teal
    mem = []
    for k in range(len(teal.split("\n"))):
        e = r3.entries.get((k, 0))
        mem.append(None if e is None else {"file": e.source, "sline": e.source_line, "scol": e.source_column})
    out.append({"spec": spec, "teal": teal, "plain": teal, "json": j, "mem": mem, "nentries": len(r3.entries),
                "annotated": sm.annotated_teal if ann else None,
                "back_equal": sorted((k, (e.source, e.source_line, e.source_column)) for k, e in back.entries.items())
                              == sorted((k, (e.source, e.source_line, e.source_column)) for k, e in r3.entries.items())})
print(json.dumps(out))
'''


def main_():
    chk = common.Check("C15")
    tier, seed = common.tier(), common.seed()
    rnd = random.Random(seed)
    import replay
    pt = replay.pt
    from pyteal.compiler.sourcemap import R3SourceMapping
    entries, descr = [], []
    # (a) mapping streams through the real encoder / decoder
    streams_, gres = gen_streams("c15")
    chk.add_tlc(gres)
    if gres.error or not streams_:
        chk.machinery_failure("R3Gen failed: %s %s" % (gres.error, gres.out[-500:]))
    if tier == "quick":
        streams_ = rnd.sample(streams_, min(len(streams_), 2500))
    for lines in streams_:
        srcs = ["s%d.py" % j for j in range(3)]
        ents = {}
        for li, segs in enumerate(lines):
            for s in segs:
                ents[(li, s["gcol"])] = R3SourceMapping(line=li, column=s["gcol"], source=srcs[s["src"]], source_line=s["sline"], source_column=s["scol"])
        try:
            sm = pt.R3SourceMap(filename="t.teal", source_root="", entries=ents, index=[tuple(s["gcol"] for s in segs) for segs in lines], file_lines=None, source_files=srcs)
            j = sm.to_json()
            back = pt.R3SourceMap.from_json(j)
            bl = [[] for _ in lines]
            for (li, col), e in sorted(back.entries.items()):
                while li >= len(bl):
                    bl.append([])
                bl[li].append({"gcol": col, "src": j["sources"].index(e.source), "sline": e.source_line, "scol": e.source_column})
            text = j["mappings"]
            # the JSON lists only the sources that occur, in first-seen order: express the stream in those indices
            remap = {srcs.index(s): i for i, s in enumerate(j["sources"])}
            want = [[dict(s, src=remap[s["src"]]) for s in segs] for segs in lines]
            entries.append({"kind": "stream", "lines": want, "text": list(text.encode()), "back": bl})
            descr.append(("stream", lines))
        except Exception as e:  # noqa: BLE001
            chk.report("C15/stream-crash/%s" % type(e).__name__, "R3SourceMap round trip raised %s on %r" % (e, lines), {"lines": lines})
    # (b) generated source files
    work = os.path.join(tlc.WORK, "c15src")
    shutil.rmtree(work, ignore_errors=True)
    strips = []
    specs = [(6, False, False, False, False), (8, True, True, False, False), (8, True, False, True, False), (9, True, True, True, False), (8, False, False, False, True)]
    if tier == "thorough":
        specs += [(v, a, h, c, ac) for v in (5, 7, 10) for a, h, c in ((True, True, False), (False, False, False)) for ac in (False, True)]
    variants = ["plain", "cond", "long", "repeat", "router"] if tier == "quick" else ["plain", "cond", "long", "repeat", "router", "plain", "cond", "repeat", "cond", "router"]
    for vi, variant in enumerate(variants):
        root = os.path.join(work, "p%d" % vi)
        marks = write_router_sources(root, rnd) if variant == "router" else write_sources(root, rnd, variant)
        with open(os.path.join(root, "driver.py"), "w") as f:       # a real file: PyTeal's frame inspection needs one
            f.write(RCHILD if variant == "router" else CHILD)
        p = subprocess.run([sys.executable, "-B", "driver.py", json.dumps(specs)], cwd=root, capture_output=True, text=True,
                           env=dict(os.environ, PYTHONDONTWRITEBYTECODE="1", VERIF_REPO=replay.REPO))
        if p.returncode != 0:
            chk.report("C15/compile-with-sourcemap-failed/%s" % variant, "compiling the generated module with a source map failed: %s" % p.stderr[-600:], {"variant": variant})
            continue
        nl = {f: len(open(os.path.join(root, f)).read().split("\n")) - 1 for f in ("rmain.py" if variant == "router" else "main.py", "helper.py")}
        for res in json.loads(p.stdout):
            what = "%s %r" % (variant, res["spec"])
            if res["teal"] != res["plain"]:
                chk.report("C15/teal-differs-with-sourcemap/%s" % what, "requesting a source map changed the TEAL", {"with": res["teal"][:2000], "without": res["plain"][:2000]})
            if not res["back_equal"]:
                chk.report("C15/from_json-differs/%s" % what, "R3SourceMap.from_json(to_json()) does not reproduce the entries", {"what": what})
            teal_lines = res["teal"].split("\n")
            if any(m_ is None for m_ in res["mem"]) or res["nentries"] != len(teal_lines):
                chk.report("C15/not-one-entry-per-line/%s" % what, "%d entries for %d TEAL lines" % (res["nentries"], len(teal_lines)), {"what": what})
                continue
            markers = []
            for ln in teal_lines:
                code, _, comment = ln.partition("//")
                t = code.split()
                mk = 0
                if len(t) == 2 and t[0] in ("int", "pushint") and t[1].isdigit() and int(t[1]) in marks:
                    mk = int(t[1])
                elif t and (t[0] == "intc" or t[0].startswith("intc_")) and comment.strip().isdigit() and int(comment.strip()) in marks:
                    mk = int(comment.strip())          # constant-block load: the compiler's own comment names the value
                markers.append(mk)
            j = res["json"]
            entries.append({"kind": "map", "text": list(j["mappings"].encode()), "sources": [os.path.basename(s) for s in j["sources"]],
                            "nlines": [count_lines(os.path.join(j.get("sourceRoot") or root, s)) for s in j["sources"]],
                            "mem": [{"file": os.path.basename(m_["file"]), "sline": m_["sline"], "scol": m_["scol"]} for m_ in res["mem"]],
                            "nteal": len(teal_lines), "markers": markers,
                            "gen": {str(k): {"file": f, "line": ln} for k, (f, ln) in marks.items()}})
            descr.append(("map", what))
            if res["annotated"] is not None:
                strips.append(({"kind": "strip", "a": lexrun.lines_of(res["annotated"]), "b": lexrun.lines_of(res["plain"]), "skip": []}, what))
    verdicts, tres, errors = run_r3(entries, "c15")
    for r in tres:
        chk.add_tlc(r)
    for e in errors:
        chk.machinery_failure(e)
    for idx, c in sorted(verdicts.items()):
        if c != "ok":
            kind, what = descr[idx]
            chk.report("C15/%s/%s/%s" % (kind, c.split(":")[0].split(" ")[0], what if kind == "map" else common.hashlib.sha1(repr(what).encode()).hexdigest()[:8]),
                       "%s %r: %s" % (kind, what, c), {"kind": kind, "what": what, "entry": entries[idx] if kind == "stream" else {k: entries[idx][k] for k in ("sources", "nlines", "nteal")}})
    sv, sres, serr = lexrun.run([s for s, _ in strips], "c15strip")
    for r in sres:
        chk.add_tlc(r)
    for e in serr:
        chk.machinery_failure(e)
    for idx, c in sorted(sv.items()):
        if c != "ok":
            chk.report("C15/annotated-teal-differs/%s" % strips[idx][1], "annotated TEAL with comments removed is not the plain TEAL: %s" % c, {"what": strips[idx][1]})
    maps = [d for d in descr if d[0] == "map"]
    chk.sample({"stream": descr[0][1], "mappings": bytes(entries[0]["text"]).decode()} if entries else {})
    if maps:
        i0 = descr.index(maps[0])
        chk.sample({"map": maps[0][1], "sources": entries[i0]["sources"], "mappings": bytes(entries[i0]["text"]).decode()[:200], "first_lines": entries[i0]["mem"][:4]})
    chk.cov["traces_validated_against_impl"] = len(entries) + len(strips)
    chk.cov["evaluations"] = len(entries) + len(strips)
    chk.cov["distinct_nontrivial"] = len(maps) + len(set(json.dumps(d[1]) for d in descr if d[0] == "stream" and len(d[1]) > 1))
    chk.notes.update({"mapping_streams": len(descr) - len(maps), "pyteal_source_maps": len(maps), "annotated_texts": len(strips),
                      "rule": "streams: behaviours of R3Gen.tla (sampled in quick); maps: generated modules x versions x annotate options; "
                              "non-trivial = PyTeal map or multi-line stream"})
    chk.assumptions += ["SourceMapR3.tla transcribes the Revision-3 mappings grammar", "markers are unique integer constants, one per generated source line"]
    shutil.rmtree(work, ignore_errors=True)
    chk.finish()


if __name__ == "__main__":
    main_()
