"""C01 - compiled TEAL computes what the PyTeal expression denotes.

spec -> code: every behaviour of spec/Gen.tla (exhaustive up to a node budget over small alphabets,
plus -simulate walks over wider ones) is replayed into the real PyTeal constructors and compiled for
every version/mode in which it compiles.
code -> spec: the emitted TEAL is run by TLC on spec/AVM.tla for every context of the recipe's context
domain and its outcome compared with spec/PyTealSem.tla's meaning of the recipe (spec/Refine.tla)."""
import sys
import os
import random
import time

sys.path.insert(0, os.path.dirname(os.path.abspath(__file__)))
import common  # noqa: E402
import gen  # noqa: E402
import pipeline  # noqa: E402
import streams  # noqa: E402
import findings  # noqa: E402


def main():
    if os.environ.get("VERIF_REPLAY"):
        streams.replay_refinement("C01", os.environ["VERIF_REPLAY"])
    chk = common.Check("C01")
    tier, seed = common.tier(), common.seed()
    rnd = random.Random(seed)
    t0 = time.time()
    progs, gres = streams.c01_programs(tier, seed, rnd)
    t1 = time.time()
    for r in gres:
        chk.add_tlc(r)
        if r.error:
            chk.machinery_failure("Builder run failed: %s\n%s" % (r.error, r.out[-1500:]))
    # LogicSig variants: the same recipe with its inputs taken from LogicSig arguments, compiled in Signature mode
    import copy
    APP_ONLY = {"Log", "GPut", "GGet", "GDel", "MV", "MVHas", "MVVal", "ItxBegin", "ItxNext", "ItxField", "ItxSubmit"}
    sigs = []
    for p in progs[::5]:
        if any(nd["k"] in APP_ONLY or (nd["k"] in ("Txn", "Global")) for nd in gen.prog_nodes(p)):
            continue
        q = copy.deepcopy(p)
        for nd in gen.prog_nodes(q):
            if nd["k"] == "TxnA" and nd["s"] == "ApplicationArgs":
                nd.update({"k": "LsigArg", "s": ""})
        q["mode"] = "sig"
        sigs.append(q)
    progs += sigs
    chk.notes["logicsig_variants"] = len(sigs)
    import opsweep
    sweep = opsweep.programs()
    progs += [p for _, p in sweep]
    chk.notes["operator_sweep_programs"] = len(sweep)
    jobs = [(p, streams.all_settings(p)) for p in progs]
    results = pipeline.compile_all(jobs)
    entries, metas, owners = [], [], []
    ncompiled = 0
    for p, rs in zip(progs, results):
        ncompiled += sum(1 for r in rs if "teal" in r)
        e, meta = pipeline.make_entry(len(entries) + 1, p, rs, pipeline.make_cx(p, gsizes=(3,) if p.get("argdoms") is not None else (1,)))
        e["strict"] = 1          # a text still running after max_steps where the source reached a verdict is reported (Refine.Compare)
        if e["texts"]:
            entries.append(e)
            metas.append(meta)
            owners.append(p)
    t2 = time.time()
    verdicts, tres, errors = pipeline.run_refine(entries, "c01", max_steps=2500)
    t3 = time.time()
    chk.notes["phase_seconds"] = {"generate": round(t1 - t0, 1), "replay_compile": round(t2 - t1, 1), "tlc_validate": round(t3 - t2, 1)}
    for r in tres:
        chk.add_tlc(r)
    for e in errors:
        chk.machinery_failure(e)
    exp = pipeline.expected_keys(entries)
    missing = exp - set(verdicts)
    if missing and not errors:
        chk.machinery_failure("%d verdicts missing, e.g. %r" % (len(missing), sorted(missing)[:3]))
    streams.judge_refinement(chk, "C01", entries, metas, verdicts,
                             classify=lambda e, ms, k, v: findings.classify_a3(e, ms, k))
    chk.cov["traces_validated_against_impl"] = len(progs) + ncompiled
    chk.cov["evaluations"] = len(verdicts)
    chk.notes["recipes"] = len(progs)
    chk.notes["compilations_succeeded"] = ncompiled
    chk.notes["distinct_texts"] = sum(len(e["texts"]) for e in entries)
    chk.notes["rule"] = ("recipes enumerated by TLC from spec/Gen.tla (exhaustive BFS per alphabet, sampled to a cap, "
                         "plus seeded simulation); non-trivial = distinct emitted instruction stream whose run executed a "
                         "branch, call, loop or effect")
    chk.assumptions += ["AVM.tla transcribes the TEAL semantics of DESIGN.md Appendix B",
                        "hash/ledger opcodes are uninterpreted deterministic tokens",
                        "bounded: program size, loop iterations via context values, MaxSteps"]
    chk.finish()


if __name__ == "__main__":
    main()
