"""BigNat.tla self-test against Python integers (machinery check, exit 2 on failure)."""
import random, sys, os
sys.path.insert(0, os.path.dirname(os.path.abspath(__file__)))
import tlc

def digs(n, base):
    out = []
    while n:
        out.append(n % base); n //= base
    return out[::-1]

def vectors(base, wd, seed, n):
    rnd = random.Random(seed)
    W = base ** wd
    edge = [0, 1, 2, base - 1, base, base + 1, W // 2 - 1, W // 2, W - 2, W - 1,
            int(W ** 0.5) - 1, int(W ** 0.5), int(W ** 0.5) + 1]
    edge = sorted({e for e in edge if 0 <= e < W})
    def rv():
        r = rnd.random()
        if r < 0.4: return rnd.choice(edge)
        if r < 0.6: return rnd.randrange(W)
        return rnd.randrange(base ** rnd.randint(0, wd))
    vs = []
    def V(op, a, b, r): vs.append({"op": op, "a": digs(a, base), "b": digs(b, base), "r": [digs(x, base) for x in r]})
    import math
    for _ in range(n):
        a, b = rv(), rv()
        V("add", a, b, [a + b]); V("mul", a, b, [a * b])
        if a >= b: V("sub", a, b, [a - b])
        if b: V("divmod", a, b, [a // b, a % b]); V("divmod", a * rv() + rv(), b, None) if False else None
        V("cmp", a, b, [(a > b) - (a < b) + 1])
        V("sqrt", a, 0, [math.isqrt(a)])
        V("and", a, b, [a & b]); V("or", a, b, [a | b]); V("xor", a, b, [a ^ b]); V("not", a, 0, [(W - 1) ^ a])
        s = rnd.randrange(wd * (8 if base == 256 else 4))
        V("shl", a, s, [(a << s) % W]); V("shr", a, s, [a >> s])
        V("bitlen", a, 0, [a.bit_length()])
        e = rnd.choice([0, 1, 2, 3, 5, 63, 64, 65]) if base == 256 else rnd.randrange(6)
        x = rnd.choice([0, 1, 2, 3, 7, 255, 256, 2**32, a % 1000])
        x %= W
        p = x ** e
        V("pow", x, e, [1, p] if p < W else [0, 0])
        # wide division: 2-word by 2-word
        c, d = a * W + rv(), rv() * rnd.choice([1, W]) + rv()
        if d: V("divmod", c, d, [c // d, c % d])
        V("mul", c, d, [c * d])
    return vs

def run(base, wd, seed, n):
    wd_ = tlc.workdir("selftest_bignat_%d" % base)
    vs = vectors(base, wd, seed, n)
    bf = os.path.join(wd_, "vec.json")
    tlc.dump_json(bf, vs)
    cfg = "SPECIFICATION Spec\nCONSTANTS Base = %d\nWD = %d\nCHECK_DEADLOCK FALSE\n" % (base, wd)
    r = tlc.run_tlc("BigNatTest", cfg, wd_, env={"BATCH_FILE": bf}, workers=8, timeout=600)
    ok = [v for v in r.verdicts if v[1] == "ok"]
    bad = [v for v in r.verdicts if v[1] != "ok"]
    ids = {v[0] for v in r.verdicts}
    if r.error or bad or len(ids) != len(vs):
        print("BigNat selftest FAILED base=%d: error=%s bad=%s verdicts=%d/%d" % (base, r.error, bad[:5], len(ids), len(vs)))
        for b in bad[:5]: print(vs[int(b[0]) - 1])
        print(tlc.tail(r, 15))
        return False
    print("BigNat selftest ok base=%d vectors=%d wall=%.1fs" % (base, len(vs), r.wall))
    return True

if __name__ == "__main__":
    seed = int(os.environ.get("VERIF_SEED", "0"))
    ok = run(256, 8, seed, 150) and run(16, 2, seed, 150)
    sys.exit(0 if ok else 2)
