"""C05 - emitted code keeps stack and type discipline on every path.

spec -> code: the program streams of spec/Gen.tla (control, effects, nested loops, optimiser macros, recursive routines of
every catalogue signature), WideRatio for all factor counts and ABI encode/decode programs over the type universe
of spec/ARC4Gen.tla, each compiled for several versions and option settings.
code -> spec: every emitted text is explored by TLC with the abstract machine of spec/Static.tla - ALL control-flow paths,
decided per program, not sampled by inputs: the stack height at every instruction equals a witness height (so it is
the same on every path), no instruction pops below the values its routine owns, operand types are never definitely
wrong against the signature table of spec/TealLegal.tla, a subroutine returns with exactly its declared results
(or a matching proto), frame accesses stay inside the frame, no path falls off the end or into another routine."""
import os
import random
import sys

sys.path.insert(0, os.path.dirname(os.path.abspath(__file__)))
import batch  # noqa: E402
import common  # noqa: E402
import gen  # noqa: E402
import pipeline  # noqa: E402
import static  # noqa: E402
import streams  # noqa: E402
from findings import classify_c05  # noqa: E402


def abi_texts(tier, rnd):
    """ABI programs (C06/C07 builders) as (description, teal, version) - signatures of their subroutines come from proto / registry"""
    import abiprog
    import abitypes
    import c07
    out = []
    types, _ = abitypes.gen("level1", 1, "c05a")
    for d in rnd.sample(types, 40 if tier == "quick" else len(types)):
        for in_sub in (False, True):
            for v in (6, 8):
                try:
                    r = abiprog.compile_ast(abiprog.encode_program(d["t"], d["vals"][0]["v"], in_sub), v)
                    if "teal" in r:
                        out.append(("abi encode %s %s" % (d["sig"], "sub" if in_sub else "main"), r["teal"], v))
                    if d["t"]["k"] in ("sarray", "darray", "tuple") and d["vals"][0]["comps"]:
                        r = abiprog.compile_ast(c07.access_program(d["t"], 0, d["t"]["k"] != "tuple", in_sub), v)
                        if "teal" in r:
                            out.append(("abi access %s %s" % (d["sig"], "sub" if in_sub else "main"), r["teal"], v))
                except abitypes.replay.PYTEAL_ERRORS:
                    pass
    return out


def main():
    chk = common.Check("C05")
    tier, seed = common.tier(), common.seed()
    rnd = random.Random(seed)
    q = tier == "quick"
    progs, gres = [], []
    for name, alpha, n, cap in (("control", streams.A_CONTROL, 6 if q else 7, 700 if q else 10000), ("effects", streams.A_EFFECTS, 6 if q else 7, 500 if q else 6000),
                                ("nest", streams.A_NEST, 8 if q else 9, 400 if q else 5000), ("optm", streams.A_OPTM, 7 if q else 8, 700 if q else 10000)):
        c = dict(alpha)
        c["MaxNodes"] = n
        c["SigsName"] = "none"
        rs, res = gen.run_builder(c, "c05_" + name, workers=8, timeout=1500, cap=cap, rnd=rnd)
        gres.append(res)
        progs += [streams.with_vars(streams.finalize(p), c) for p in rs]
    rp, rres = streams.c02_programs(tier, seed, rnd, caps=(500, 150) if q else (4000, 3000))
    progs += rp
    import c16
    progs += [c16.wide_prog(a, b) for a in range(1, 7) for b in range(1, 7) if (a, b) != (1, 1)]
    for r in gres + rres:
        chk.add_tlc(r)
        if r.error:
            chk.machinery_failure("Gen run failed: " + r.error)
    sets = [{"v": 2}, {"v": 5}, {"v": 7, "ss": True}, {"v": 8}, {"v": 8, "fp": False}, {"v": 9}, {"v": 10, "ss": False}] if q else \
        [{"v": v, "ss": ss, "fp": fp} for v in range(2, 11) for ss in (False, True) for fp in ((None,) if v < 8 else (True, False))]
    results = pipeline.compile_all([(p, sets) for p in progs])
    entries, descr = [], []
    seen = set()
    for p, rs in zip(progs, results):
        texts = []
        for r in rs:
            if "teal" not in r:
                continue
            if r["teal"] in seen:
                continue
            seen.add(r["teal"])
            instrs, _ = __import__("tealtok").parse_program(r["teal"])
            texts.append(static.text_record(r["teal"], r["st"]["v"], "app", recipe_R=batch.routine_table(p, instrs), tag=pipeline.settings_tag(r["st"])))
            texts[-1]["_text"] = r["teal"]
            texts[-1]["_st"] = r["st"]
        if texts:
            entries.append({"texts": texts})
            descr.append(p)
    for what, teal, v in abi_texts(tier, rnd):
        if teal in seen:
            continue
        seen.add(teal)
        t = static.text_record(teal, v, "app", tag="v%d" % v, registry={"worker": [(0, 0)]})
        t["_text"], t["_st"] = teal, {"v": v}
        entries.append({"texts": [t]})
        descr.append({"big": what})
    clean = [{"texts": [{k: v for k, v in t.items() if not k.startswith("_")} for t in e["texts"]]} for e in entries]
    lines, tres, errors = static.run(clean, "c05")
    for r in tres:
        chk.add_tlc(r)
    for e in errors:
        chk.machinery_failure(e)
    ntexts = sum(len(e["texts"]) for e in entries)
    for kind, idx, k, pc, why in [ln for ln in lines if ln[0] == "X"]:
        t = entries[idx]["texts"][k - 1]
        p = descr[idx]
        shape = p.get("big") or streams.shape_digest({"main": p["main"], "rt": p.get("rt", [])})
        key = classify_c05(p, t, int(pc), why) or "C05/%s/%s" % (why.split(" ")[0].split(":")[0], shape)
        chk.report(key, "%s at pc %s of the text compiled as %s: %s" % (why, pc, t["tag"], t["teal"][int(pc) - 1] if int(pc) <= len(t["teal"]) else "end"),
                   {"recipe": None if p.get("big") else {"main": p["main"], "rt": p.get("rt", [])}, "what": p.get("big"), "st": t["_st"], "pc": int(pc), "why": why, "text": t["_text"][:6000]})
    if entries:
        t0 = entries[0]["texts"][0]
        chk.sample({"teal": t0["_text"][:500], "H": t0["H"][:40], "entries": t0["entries"]})
    chk.cov["traces_validated_against_impl"] = ntexts
    chk.cov["evaluations"] = ntexts
    chk.cov["distinct_nontrivial"] = sum(1 for e in entries for t in e["texts"] if any(i["op"] in ("bz", "bnz", "callsub") for i in t["teal"]))
    chk.notes.update({"programs": len(entries), "distinct_texts": ntexts,
                      "rule": "every distinct emitted text is explored exhaustively (all abstract paths) by TLC; non-trivial = text with a branch or a call"})
    chk.assumptions += ["stack signatures of TealLegal.tla", "routine signatures: recipe routine table, else proto, else skipped call (reported as call-of-unknown-signature)"]
    chk.finish()


if __name__ == "__main__":
    main()
