"""C05 - emitted code keeps stack and type discipline on every path.

spec -> code: the program streams of spec/Gen.tla (control, effects, nested loops, optimiser macros, recursive routines of
every catalogue signature), WideRatio for all factor counts and ABI encode/decode programs over the type universe
of spec/ARC4Gen.tla, each compiled for several versions and option settings.
code -> spec: every emitted text is explored by TLC with the abstract machine of spec/Static.tla - ALL control-flow paths,
decided per program, not sampled by inputs: the stack height at every instruction equals a witness height (so it is
the same on every path), no instruction pops below the values its routine owns, operand types are never definitely
wrong against the signature table of spec/TealLegal.tla, a subroutine returns with exactly its declared results
(or a matching proto), frame accesses stay inside the frame, no path falls off the end or into another routine."""
import os
import random
import sys

sys.path.insert(0, os.path.dirname(os.path.abspath(__file__)))
import batch  # noqa: E402
import common  # noqa: E402
import gen  # noqa: E402
import pipeline  # noqa: E402
import static  # noqa: E402
import streams  # noqa: E402
from findings import classify_c05  # noqa: E402


def abi_texts(tier, rnd):
    """ABI programs (C06/C07 builders) as (description, teal, version) - signatures of their subroutines come from proto / registry"""
    import abiprog
    import abitypes
    import c07
    out = []
    types, _ = abitypes.gen("level1", 1, "c05a")
    for d in rnd.sample(types, 40 if tier == "quick" else len(types)):
        for in_sub in (False, True):
            for v in (6, 8):
                try:
                    r = abiprog.compile_ast(abiprog.encode_program(d["t"], d["vals"][0]["v"], in_sub), v)
                    if "teal" in r:
                        out.append(("abi encode %s %s" % (d["sig"], "sub" if in_sub else "main"), r["teal"], v))
                    if d["t"]["k"] in ("sarray", "darray", "tuple") and d["vals"][0]["comps"]:
                        r = abiprog.compile_ast(c07.access_program(d["t"], 0, d["t"]["k"] != "tuple", in_sub), v)
                        if "teal" in r:
                            out.append(("abi access %s %s" % (d["sig"], "sub" if in_sub else "main"), r["teal"], v))
                except abitypes.replay.PYTEAL_ERRORS:
                    pass
    return out


def router_texts(tier, rnd):
    """Router approval / clear programs (C08 configurations, C09 signature catalogue) and inner method calls (C14)"""
    import c08
    import c09
    import c14
    import callgen
    import replay
    out = []
    configs, _ = c08.gen_configs()
    live = [c for c in configs if any(v != "NEVER" for v in c.values())]
    for j in range(12 if tier == "quick" else 120):
        cfg = {"methods": [rnd.choice(live) for _ in range(rnd.choice((0, 1, 2, 3)))], "bare": rnd.choice(configs), "clear": rnd.randrange(2),
               "style": rnd.choice(("handler", "decorator"))}
        try:
            router, _ = c08.build_router(cfg)
            for v in (6, 8):
                ap, cl, _ = router.compile_program(version=v)
                out.append(("router#%d approval" % j, ap, v, {"m1": [(0, 0)], "m2": [(0, 0)], "m3": [(0, 0)]}))
                out.append(("router#%d clear" % j, cl, v, None))
        except replay.PYTEAL_ERRORS:
            pass
    cat = c09.catalogue(tier, rnd)
    for ps in (cat if tier == "thorough" else rnd.sample(cat, min(len(cat), 30))):
        for void in (True, False):
            try:
                for v in (6, 8):
                    ap, _, _ = c09.make_router(ps, void).compile_program(version=v)
                    out.append(("routed echo(%s)%s" % (",".join(c09.abitypes_sig(p) for p in ps), "void" if void else "string"), ap, v,
                                {"echo": [(len(ps), 0 if void else 1)]}))
            except replay.PYTEAL_ERRORS:
                pass
    return out


def illtyped_attempts():
    """programs that violate a typing rule: PyTeal should refuse them; if one compiles, its text is judged like any other"""
    import replay
    pt = replay.pt
    U, B, NONE, ANY = pt.TealType.uint64, pt.TealType.bytes, pt.TealType.none, pt.TealType.anytype
    c = lambda: pt.Btoi(pt.Txn.application_args[0])  # noqa: E731
    out = []

    def sub(ret, body, nargs=1):
        def mk():
            ns = {"pt": pt, "body": body}
            exec("def f(%s):\n    return body(%s)\n" % (", ".join("a%d" % j for j in range(nargs)), ", ".join("a%d" % j for j in range(nargs))), ns)
            return pt.Subroutine(ret)(ns["f"])
        return mk
    out.append(("anytype routine, bare Return on one path", lambda: pt.Seq(pt.Pop(sub(ANY, lambda a: pt.Seq(pt.If(a).Then(pt.Return()), pt.Int(1)))()(c())), pt.Int(1))))
    out.append(("anytype routine, body of type none", lambda: pt.Seq(pt.Pop(sub(ANY, lambda a: pt.Pop(a))()(c())), pt.Int(1))))
    out.append(("uint64 routine, bare Return", lambda: pt.Seq(pt.Pop(sub(U, lambda a: pt.Seq(pt.If(a).Then(pt.Return()), pt.Int(1)))()(c())), pt.Int(1))))
    out.append(("none routine returning a value", lambda: pt.Seq(sub(NONE, lambda a: pt.Return(a))()(c()), pt.Int(1))))
    out.append(("bytes routine returning uint64", lambda: pt.Seq(pt.Pop(sub(B, lambda a: pt.Return(pt.Btoi(a)))()(c())), pt.Int(1))))
    out.append(("value in the middle of a Seq", lambda: pt.Seq(pt.Int(1), pt.Int(2))))
    out.append(("If with uint64 / bytes arms", lambda: pt.Seq(pt.Pop(pt.If(c(), pt.Int(1), pt.Bytes("a"))), pt.Int(1))))
    out.append(("If/ElseIf/Else with mixed arm types", lambda: pt.Seq(pt.Pop(pt.Btoi(pt.If(c()).Then(pt.Int(1)).ElseIf(c()).Then(pt.Bytes("a")).Else(pt.Bytes("b")))), pt.Int(1))))
    out.append(("Cond uint64 / anytype / bytes arms", lambda: pt.Seq(pt.Pop(pt.Len(pt.Cond([c(), pt.Int(7)], [c(), pt.App.globalGet(pt.Bytes("k"))], [pt.Int(1), pt.Bytes("a")]))), pt.Int(1))))
    out.append(("Cond bytes / anytype / uint64 arms", lambda: pt.Seq(pt.Pop(pt.Cond([c(), pt.Bytes("a")], [c(), pt.App.globalGet(pt.Bytes("k"))], [pt.Int(1), pt.Int(7)]) + pt.Int(1)), pt.Int(1))))
    out.append(("If uint64 / anytype then bytes via ElseIf", lambda: pt.Seq(pt.Pop(pt.Len(pt.If(c()).Then(pt.App.globalGet(pt.Bytes("k"))).ElseIf(c()).Then(pt.Int(1)).Else(pt.Bytes("b")))), pt.Int(1))))
    out.append(("Cond with mixed arm types", lambda: pt.Seq(pt.Pop(pt.Cond([c(), pt.Int(1)], [pt.Int(1), pt.Bytes("a")])), pt.Int(1))))
    out.append(("While with a value body", lambda: pt.Seq(pt.While(c()).Do(pt.Int(1)), pt.Int(1))))
    out.append(("Assert on bytes", lambda: pt.Seq(pt.Assert(pt.Txn.sender()), pt.Int(1))))
    out.append(("Add of bytes", lambda: pt.Add(pt.Txn.sender(), pt.Int(1))))
    out.append(("main of type bytes", lambda: pt.Txn.sender()))
    out.append(("Return(bytes) from main", lambda: pt.Return(pt.Txn.sender())))
    out.append(("ScratchVar(uint64) storing bytes", lambda: pt.Seq(v := pt.ScratchVar(U), v.store(pt.Txn.sender()), v.load())))
    out.append(("Log of uint64", lambda: pt.Seq(pt.Log(pt.Int(1)), pt.Int(1))))
    out.append(("call with too few arguments", lambda: pt.Seq(pt.Pop(sub(U, lambda a, b: a + b, nargs=2)()(c())), pt.Int(1))))
    return out


def main():
    chk = common.Check("C05")
    tier, seed = common.tier(), common.seed()
    rnd = random.Random(seed)
    q = tier == "quick"
    progs, gres = [], []
    for name, alpha, n, cap in (("control", streams.A_CONTROL, 6 if q else 7, 700 if q else 10000), ("effects", streams.A_EFFECTS, 6 if q else 7, 500 if q else 6000),
                                ("nest", streams.A_NEST, 8 if q else 9, 400 if q else 5000), ("optm", streams.A_OPTM, 7 if q else 8, 700 if q else 10000)):
        c = dict(alpha)
        c["MaxNodes"] = n
        c["SigsName"] = "none"
        rs, res = gen.run_builder(c, "c05_" + name, workers=8, timeout=1500, cap=cap, rnd=rnd)
        gres.append(res)
        progs += [streams.with_vars(streams.finalize(p), c) for p in rs]
    rp, rres = streams.c02_programs(tier, seed, rnd, caps=(500, 150) if q else (4000, 3000))
    progs += rp
    import c16
    progs += [c16.wide_prog(a, b) for a in range(1, 7) for b in range(1, 7) if (a, b) != (1, 1)]
    for r in gres + rres:
        chk.add_tlc(r)
        if r.error:
            chk.machinery_failure("Gen run failed: " + r.error)
    sets = [{"v": 2}, {"v": 5}, {"v": 7, "ss": True}, {"v": 8}, {"v": 8, "fp": False}, {"v": 9}, {"v": 10, "ss": False}] if q else \
        [{"v": v, "ss": ss, "fp": fp} for v in range(2, 11) for ss in (False, True) for fp in ((None,) if v < 8 else (True, False))]
    results = pipeline.compile_all([(p, sets) for p in progs])
    entries, descr = [], []
    seen = set()
    for p, rs in zip(progs, results):
        texts = []
        for r in rs:
            if "teal" not in r:
                continue
            if r["teal"] in seen:
                continue
            seen.add(r["teal"])
            instrs, _ = __import__("tealtok").parse_program(r["teal"])
            texts.append(static.text_record(r["teal"], r["st"]["v"], "app", recipe_R=batch.routine_table(p, instrs), tag=pipeline.settings_tag(r["st"])))
            texts[-1]["_text"] = r["teal"]
            texts[-1]["_st"] = r["st"]
        if texts:
            entries.append({"texts": texts})
            descr.append(p)
    for what, teal, v in abi_texts(tier, rnd):
        if teal in seen:
            continue
        seen.add(teal)
        t = static.text_record(teal, v, "app", tag="v%d" % v, registry={"worker": [(0, 0)]})
        t["_text"], t["_st"] = teal, {"v": v}
        entries.append({"texts": [t]})
        descr.append({"big": what})
    nrouter = 0
    for what, teal, v, registry in router_texts(tier, rnd):
        if teal in seen:
            continue
        seen.add(teal)
        t = static.text_record(teal, v, "app", tag="v%d" % v, registry=registry)
        t["_text"], t["_st"] = teal, {"v": v}
        entries.append({"texts": [t]})
        descr.append({"big": what})
        nrouter += 1
    chk.notes["router_texts"] = nrouter
    import handprogs
    for name, recipe, rs in handprogs.family(tier):
        for r in rs:
            if "teal" in r and r["teal"] not in seen:
                seen.add(r["teal"])
                t = static.text_record(r["teal"], r["st"]["v"], "app", tag=pipeline.settings_tag(r["st"]),
                                       registry={"tri": [(1, 1)], "weigh": [(2, 1)], "helper": [(1, 0)], "count": [(1, 1)], "anyf": [(1, 1)]})
                t["_text"], t["_st"] = r["teal"], r["st"]
                entries.append({"texts": [t]})
                descr.append({"big": name})
    import replay as _rp
    refused = accepted = 0
    for what, build in illtyped_attempts():
        for v in (5, 6, 8, 10):
            try:
                teal = _rp.pt.compileTeal(build(), _rp.pt.Mode.Application, version=v)
            except _rp.PYTEAL_ERRORS:
                refused += 1
                continue
            except TypeError:
                refused += 1
                continue
            accepted += 1
            if teal in seen:
                continue
            seen.add(teal)
            t = static.text_record(teal, v, "app", tag="v%d" % v, registry={"f": [(1, 1), (1, 0), (2, 1)]} if False else None)
            t["_text"], t["_st"] = teal, {"v": v}
            entries.append({"texts": [t]})
            descr.append({"big": "ill-typed attempt: " + what})
    chk.notes["illtyped_attempts_refused"] = refused
    chk.notes["illtyped_attempts_compiled_and_judged"] = accepted
    clean = [{"texts": [{k: v for k, v in t.items() if not k.startswith("_")} for t in e["texts"]]} for e in entries]
    lines, tres, errors = static.run(clean, "c05")
    for r in tres:
        chk.add_tlc(r)
    for e in errors:
        chk.machinery_failure(e)
    ntexts = sum(len(e["texts"]) for e in entries)
    for kind, idx, k, pc, why in [ln for ln in lines if ln[0] == "X"]:
        t = entries[idx]["texts"][k - 1]
        p = descr[idx]
        shape = p.get("big") or streams.shape_digest({"main": p["main"], "rt": p.get("rt", [])})
        key = classify_c05(p, t, int(pc), why) or "C05/%s/%s" % (why.split(" ")[0].split(":")[0], shape)
        chk.report(key, "%s at pc %s of the text compiled as %s: %s" % (why, pc, t["tag"], t["teal"][int(pc) - 1] if int(pc) <= len(t["teal"]) else "end"),
                   {"recipe": None if p.get("big") else {"main": p["main"], "rt": p.get("rt", [])}, "what": p.get("big"), "st": t["_st"], "pc": int(pc), "why": why, "text": t["_text"][:6000]})
    if entries:
        t0 = entries[0]["texts"][0]
        chk.sample({"teal": t0["_text"][:500], "H": t0["H"][:40], "entries": t0["entries"]})
    chk.cov["traces_validated_against_impl"] = ntexts
    chk.cov["evaluations"] = ntexts
    chk.cov["distinct_nontrivial"] = sum(1 for e in entries for t in e["texts"] if any(i["op"] in ("bz", "bnz", "callsub") for i in t["teal"]))
    chk.notes.update({"programs": len(entries), "distinct_texts": ntexts,
                      "rule": "every distinct emitted text is explored exhaustively (all abstract paths) by TLC; non-trivial = text with a branch or a call"})
    chk.assumptions += ["stack signatures of TealLegal.tla", "routine signatures: recipe routine table, else proto, else skipped call (reported as call-of-unknown-signature)"]
    chk.finish()


if __name__ == "__main__":
    main()
