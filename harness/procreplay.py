"""Replays API histories generated from spec/Process.tla in a real interpreter (one forked child per history) and
records what the trace specification needs.  Also produces the fresh-process reference results."""
import hashlib
import json
import os
import subprocess
import sys

HERE = os.path.dirname(os.path.abspath(__file__))


def _pt():
    import replay
    return replay.pt


# ---- the program catalogue (kinds of spec/Process.tla) -----------------------------------------
def build(kind):
    pt = _pt()
    abi = pt.abi
    if kind == "plain":
        a, b = pt.ScratchVar(pt.TealType.uint64), pt.ScratchVar(pt.TealType.bytes)
        return pt.Seq(a.store(pt.Btoi(pt.Txn.application_args[0])), b.store(pt.Itob(a.load() + pt.Int(1))),
                      pt.Log(b.load()), pt.Return(a.load() < pt.Int(10)))
    if kind == "subs":
        @pt.Subroutine(pt.TealType.uint64)
        def fact(n):
            v = pt.ScratchVar(pt.TealType.uint64)
            return pt.Seq(v.store(n), pt.If(n <= pt.Int(1)).Then(pt.Int(1)).Else(v.load() * fact(n - pt.Int(1))))

        @pt.Subroutine(pt.TealType.none)
        def note(x):
            return pt.Log(pt.Itob(x))
        return pt.Seq(note(fact(pt.Int(4))), pt.Approve())
    if kind == "abimain":
        x, s, t = abi.Uint64(), abi.String(), abi.make(abi.Tuple2[abi.Uint8, abi.String])
        y = abi.Uint8()
        return pt.Seq(x.set(5), s.set("hi"), y.set(7), t.set(y, s), pt.Log(t.encode()), pt.Log(pt.Itob(x.get())), pt.Approve())
    if kind == "abisub":
        @pt.ABIReturnSubroutine
        def addone(a: abi.Uint64, b: abi.String, *, output: abi.Uint64):
            tmp = abi.Uint64()
            return pt.Seq(tmp.set(a.get() + b.length()), output.set(tmp.get() + pt.Int(1)))
        r, a, b = abi.Uint64(), abi.Uint64(), abi.String()
        return pt.Seq(a.set(3), b.set("abc"), addone(a, b).store_into(r), pt.Log(pt.Itob(r.get())), pt.Approve())
    if kind == "router":
        router = pt.Router("hist", pt.BareCallActions(no_op=pt.OnCompleteAction.create_only(pt.Approve())), clear_state=pt.Approve())

        @router.method
        def add(a: abi.Uint64, b: abi.Uint64, *, output: abi.Uint64):
            return output.set(pt.Divw(pt.Int(0), a.get(), pt.Int(1)) + b.get())          # divw: the version-5 attempt (failr) ends in an error

        @router.method
        def greet(name: abi.String, *, output: abi.String):
            return output.set(pt.Concat(pt.Bytes("hi "), name.get()))
        return router
    if kind == "router1":
        router = pt.Router("hist1", pt.BareCallActions(no_op=pt.OnCompleteAction.create_only(pt.Approve())), clear_state=pt.Approve())

        @router.method
        def scale(a: abi.Uint64, b: abi.Uint64, *, output: abi.Uint64):
            tmp = abi.Uint64()
            return pt.Seq(tmp.set(pt.Divw(pt.Int(0), a.get(), b.get())), output.set(tmp.get() + pt.Int(1)))
        return router
    if kind == "itxn":
        a = abi.Uint64()
        return pt.Seq(a.set(9), pt.InnerTxnBuilder.ExecuteMethodCall(
            app_id=pt.Int(5), method_signature="f(uint64,account)void", args=[a, pt.Txn.sender()],
            extra_fields={pt.TxnField.fee: pt.Int(0), pt.TxnField.note: pt.Bytes("n"), pt.TxnField.on_completion: pt.OnComplete.NoOp,
                          pt.TxnField.rekey_to: pt.Global.zero_address()}), pt.Approve())
    if kind == "tmpl":
        return pt.Seq(pt.Pop(pt.Tmpl.Bytes("TMPL_B")), pt.Return(pt.Tmpl.Int("TMPL_I") + pt.Int(1)))
    if kind in ("raise8", "raise6"):
        # a subroutine whose Python body raises a PyTeal error when it is evaluated: at version 8 that happens inside
        # the frame-pointer context of the subroutine (raise8), at version 6 outside of it (raise6)
        @pt.Subroutine(pt.TealType.uint64)
        def broken(n):
            raise pt.TealInputError("this body cannot be built")
        return pt.Seq(pt.Pop(broken(pt.Int(1))), pt.Approve())
    if kind == "lowver":
        return pt.Seq(pt.Log(pt.Bytes("x")), pt.Approve())
    raise ValueError(kind)


def compile_kind(obj, kind, opt):
    pt = _pt()
    if kind in ("router", "router1"):
        ap, cl, contract = obj.compile_program(version=int(opt[1:]))
        return ap + "\n----\n" + cl + "\n----\n" + json.dumps(contract.dictify(), sort_keys=True)
    v = {"v6": 6, "v8": 8, "v9": 9, "v8nofp": 8}[opt]
    oo = pt.OptimizeOptions(frame_pointers=False) if opt == "v8nofp" else None
    return pt.compileTeal(obj, pt.Mode.Application, version=v, optimize=oo)


FAIL_AT = {"raise8": 8, "raise6": 6, "lowver": 2}


def run_history(actions):
    """actions: ['build:plain:', 'compile:plain:v6', ...] -> list of event dicts (without `same`)"""
    import replay
    pt = replay.pt
    from pyteal.ast.subroutine import SubroutineEval
    from pyteal.ast.scratch import ScratchSlot
    inst = {}
    out = []
    for a in actions:
        act, p, o = a.split(":")
        ev = {"act": act, "p": p, "o": o, "cls": "", "text": ""}
        ctr = ScratchSlot.nextSlotId
        try:
            if act == "build":
                inst[p] = build(p)
            elif act == "compile":
                ev["text"] = compile_kind(inst[p], p, o)
                ev["cls"] = "teal"
                second = dict(ev, text="")                  # compiling the same object again is part of every history: a second event
            elif act == "fail":
                try:
                    pt.compileTeal(build(p), pt.Mode.Application, version=FAIL_AT[p])
                    ev["cls"] = "teal"
                except replay.PYTEAL_ERRORS:
                    ev["cls"] = "pyteal"
            elif act == "failr":
                try:
                    inst[p].compile_program(version=int(o[1:]))
                    ev["cls"] = "teal"
                except replay.PYTEAL_ERRORS:
                    ev["cls"] = "pyteal"
            elif act == "noise":
                _ = [pt.ScratchVar() for _ in range(20)]

                @pt.Subroutine(pt.TealType.none)
                def unused():
                    return pt.Pop(pt.Int(1))
        except replay.PYTEAL_ERRORS as e:
            ev["cls"] = "pyteal-error:" + type(e).__name__
        except Exception as e:  # noqa: BLE001
            ev["cls"] = "crash:" + type(e).__name__
        ev["marker_none"] = 1 if SubroutineEval._current_proto is None else 0
        ev["adv"] = 1 if ScratchSlot.nextSlotId > ctr else 0
        out.append(ev)
        if act == "compile" and ev["cls"] == "teal":
            ctr = ScratchSlot.nextSlotId
            try:
                second["text"] = compile_kind(inst[p], p, o)
                second["cls"] = "teal"
            except replay.PYTEAL_ERRORS as e:
                second["cls"] = "pyteal-error:" + type(e).__name__
            except Exception as e:  # noqa: BLE001
                second["cls"] = "crash:" + type(e).__name__
            second["marker_none"] = 1 if SubroutineEval._current_proto is None else 0
            second["adv"] = 1 if ScratchSlot.nextSlotId > ctr else 0
            out.append(second)
    return out


def run_history_forked(actions):
    """runs run_history in a forked child so that histories cannot influence each other"""
    r, w = os.pipe()
    pid = os.fork()
    if pid == 0:
        os.close(r)
        try:
            data = json.dumps(run_history(actions))
        except Exception as e:  # noqa: BLE001
            data = json.dumps({"error": repr(e)})
        with os.fdopen(w, "w") as f:
            f.write(data)
        os._exit(0)
    os.close(w)
    with os.fdopen(r) as f:
        data = f.read()
    os.waitpid(pid, 0)
    return json.loads(data)


def fresh(kind, opt, hashseed):
    env = dict(os.environ, PYTHONHASHSEED=str(hashseed), PYTHONDONTWRITEBYTECODE="1")
    p = subprocess.run([sys.executable, "-B", os.path.abspath(__file__), "--fresh", kind, opt], env=env, capture_output=True, text=True, cwd=HERE)
    if p.returncode != 0:
        raise RuntimeError("fresh compile of %s %s failed: %s" % (kind, opt, p.stderr[-500:]))
    return p.stdout


if __name__ == "__main__":
    sys.path.insert(0, HERE)
    if sys.argv[1] == "--fresh":
        kind, opt = sys.argv[2], sys.argv[3]
        sys.stdout.write(compile_kind(build(kind), kind, opt))
