"""Shared plumbing of the checks: tiers/seeds, evidence files, known findings, VIOLATION lines."""
import json
import os
import sys
import time
import hashlib

VERIF = os.path.dirname(os.path.dirname(os.path.abspath(__file__)))
# mutant demonstrations (tools/try_mutant.sh) redirect evidence/replays/work so that they never disturb the real ones
EVID = os.environ.get("VERIF_EVIDENCE_DIR") or os.path.join(VERIF, "evidence")
REPLAYS = os.environ.get("VERIF_REPLAY_DIR") or os.path.join(VERIF, "replays")
KNOWN = os.path.join(VERIF, "known_findings.json")


def tier():
    t = os.environ.get("VERIF_TIER", "quick")
    return t if t in ("quick", "thorough") else "quick"


def seed():
    try:
        return int(os.environ.get("VERIF_SEED", "0"))
    except ValueError:
        return 0


def load_known(prop):
    """keys of the recorded (unrepaired) genuine defects of one property."""
    if not os.path.exists(KNOWN):
        return {}
    with open(KNOWN) as f:
        data = json.load(f)
    return {e["key"]: e for e in data.get("findings", []) if e["property"] == prop}


class Check:
    """Collects verdicts of one property check and finishes with evidence + exit code."""

    def __init__(self, prop, level="model_checking"):
        self.prop = prop
        self.level = level
        self.t0 = time.time()
        self.known = load_known(prop)
        self.known_hit = {}
        self.violations = []       # (key, description, replay payload)
        self.cov = {"states": 0, "transitions": 0, "traces_validated_against_impl": 0, "samples": [],
                    "evaluations": 0, "distinct_nontrivial": 0}
        self.assumptions = []
        self.notes = {}
        self.machinery = []

    # -- accounting ---------------------------------------------------------------------------
    def add_tlc(self, res):
        if getattr(res, "cached", False):
            # behaviours of Gen.tla generated earlier (setup) from the same spec + constants; counted separately
            self.notes["generator_states_from_cache"] = self.notes.get("generator_states_from_cache", 0) + res.cached_stats["distinct"]
            return
        self.cov["states"] += res.distinct
        self.cov["transitions"] += res.generated

    def sample(self, s, cap=6):
        if len(self.cov["samples"]) < cap:
            self.cov["samples"].append(s)

    def machinery_failure(self, msg):
        self.machinery.append(msg)

    # -- findings -----------------------------------------------------------------------------
    def report(self, key, description, payload):
        """A property violation with a stable key.  Known keys print KNOWN-FINDING, others VIOLATION."""
        if key in self.known:
            if key not in self.known_hit:
                self.known_hit[key] = description
            return False
        if not any(v[0] == key for v in self.violations):
            self.violations.append((key, description, payload))
        return True

    def finish(self):
        os.makedirs(EVID, exist_ok=True)
        os.makedirs(REPLAYS, exist_ok=True)
        wall = time.time() - self.t0
        for key, desc in sorted(self.known_hit.items()):
            print("KNOWN-FINDING: property=%s %s :: %s" % (self.prop, key, desc))
        rc = 0
        for n, (key, desc, payload) in enumerate(self.violations):
            h = hashlib.sha1(key.encode()).hexdigest()[:10]
            path = os.path.join(REPLAYS, "%s_%s.json" % (self.prop, h))
            with open(path, "w") as f:
                json.dump({"property": self.prop, "key": key, "description": desc, "payload": payload}, f, indent=1)
            if n < 25:
                print("VIOLATION property=%s replay=%s" % (self.prop, path))
                print("  " + key + " :: " + desc[:300])
            rc = 1
        if self.machinery:
            for m in self.machinery:
                print("MACHINERY-FAILURE: " + m)
            rc = 2
        cov = dict(self.cov)
        cov.update(self.notes)
        cov["known_findings_seen"] = sorted(self.known_hit)
        ev = {"property_id": self.prop, "tier": tier(), "seed": seed(), "level": self.level,
              "coverage": cov, "assumptions": self.assumptions, "wall_s": round(wall, 2),
              "violations": len(self.violations)}
        if not cov["samples"]:
            cov["samples"] = ["(no sample recorded)"]
        if rc != 2:
            with open(os.path.join(EVID, "%s.json" % self.prop), "w") as f:
                json.dump(ev, f, indent=1)
        print("%s: %s in %.1fs (states=%d transitions=%d replayed/validated=%d evaluations=%d known=%d violations=%d)" % (
            self.prop, "OK" if rc == 0 else ("VIOLATED" if rc == 1 else "MACHINERY FAILURE"), wall, cov["states"],
            cov["transitions"], cov["traces_validated_against_impl"], cov["evaluations"], len(self.known_hit),
            len(self.violations)))
        sys.exit(rc)
