"""C17 - reading a routine-local variable before writing it is rejected.

spec -> code: behaviours of spec/Gen.tla over alphabets whose variables are NOT initialised up front
(branches, Cond arms, zero-iteration loops, Break/Continue exits, early returns, routines with locals).
code -> spec: the real compile outcome (TEAL / PyTeal error + the variable named by the error's cause) is
judged by TLC on spec/Compile.tla against spec/DefInit.tla: if some syntactic path reaches a load of a
single-routine variable that was never stored on it, compilation must fail with a PyTeal error whose cause
is a load of such a variable.  One-directional: a stricter compiler is never an alarm here (C20 covers
the converse on programs that are initialised by construction)."""
import os
import random
import sys

sys.path.insert(0, os.path.dirname(os.path.abspath(__file__)))
import common  # noqa: E402
import outcomes  # noqa: E402
import streams  # noqa: E402


def main():
    chk = common.Check("C17")
    tier, seed = common.tier(), common.seed()
    rnd = random.Random(seed)
    progs, gres = streams.c17_programs(tier, seed, rnd)
    for r in gres:
        chk.add_tlc(r)
        if r.error:
            chk.machinery_failure("Builder run failed: %s\n%s" % (r.error, r.out[-1500:]))
    opts = [(None, None), (False, False)] if tier == "quick" else [(None, None), (True, None), (False, False), (True, True), (False, True)]
    grid = outcomes.settings_grid(versions=(4, 6, 8, 9, 10) if tier == "quick" else range(2, 11), modes=("app",), opts=opts)
    entries, raw = outcomes.collect(progs, lambda p: grid)
    verdicts, tres, errors = outcomes.judge(entries, "c17")
    for r in tres:
        chk.add_tlc(r)
    for e in errors:
        chk.machinery_failure(e)
    must = ok_init = rejected = 0
    shapes = set()
    for idx, v in sorted(verdicts.items()):
        e = entries[idx]
        if v[1] == "must-reject":
            must += 1
            shapes.add(streams.shape_digest(e["recipe"]))
            rejected += sum(1 for o in e["outs"] if o["cls"] == "pyteal")
            if len(chk.cov["samples"]) < 3:
                chk.sample({"recipe": e["recipe"], "outcomes": [[o["tag"], o["cls"], o["err"], o["cvar"]] for o in e["outs"][:4]], "verdict": v})
        else:
            ok_init += 1
        for j, c in outcomes.clauses(v):
            if not c.startswith("uninit-"):
                continue
            o = e["outs"][j - 1]
            key = "C17/%s/%s" % (c.split(":")[0], streams.shape_digest(e["recipe"]))
            chk.report(key, "%s at %s (%s %s)" % (c, o["tag"], raw[idx][j - 1].get("err"), raw[idx][j - 1].get("msg", "")[:160]),
                       {"recipe": e["recipe"], "vars": progs[idx].get("vars", []), "mode": o["mode"], "st": raw[idx][j - 1]["st"],
                        "outcome": o, "verdict": v})
    chk.cov["traces_validated_against_impl"] = sum(len(e["outs"]) for e in entries)
    chk.cov["evaluations"] = sum(len(e["outs"]) for e in entries)
    chk.cov["distinct_nontrivial"] = len(shapes)
    chk.notes.update({"recipes": len(progs), "must_reject_recipes": must, "initialised_recipes": ok_init,
                      "rejections_observed": rejected,
                      "rule": "programs = finished behaviours of spec/Gen.tla without up-front initialisation; non-trivial = "
                              "distinct recipe for which DefInit.tla finds a path to an unwritten local load (must-reject)"})
    if must == 0:
        chk.machinery_failure("vacuous: no must-reject recipe was generated")
    chk.assumptions += ["syntactic paths: every branch both ways, loops zero or more times, Return/Approve/Reject/Err end a path",
                        "variables used by more than one routine are global and assumed initialised (as the property states)"]
    chk.finish()


if __name__ == "__main__":
    main()
