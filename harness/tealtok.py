"""TEAL text -> instruction records for the TLA+ specifications (AVM.tla, AbsAVM.tla, TealLegal.tla).

A line-level tokenizer written from the assembler's line grammar (whitespace, // comments outside
strings and base64(...), ';' statement separator, string escapes).  It mirrors spec/TealLex.tla; the
agreement of the two on every literal-bearing line is checked by the C13 check and at setup.
Integers that may exceed 2^31 are emitted as normalised big-endian base-256 digit lists."""
import base64
import hashlib
import re


class TealSyntaxError(Exception):
    pass


def digits(n, base=256):
    out = []
    while n:
        out.append(n % base)
        n //= base
    return out[::-1]


def undigits(ds, base=256):
    n = 0
    for d in ds:
        n = n * base + d
    return n


def is_space(c):
    return c in " \t"


def split_statements(line):
    """tokens of one physical line -> list of statements (each a list of tokens)."""
    toks = []
    stmts = []
    i, n = 0, len(line)
    start = None
    in_str = in_b64 = False

    def flush(j):
        nonlocal start
        if start is not None and j > start:
            toks.append(line[start:j])
        start = None

    while i < n:
        c = line[i]
        if in_str:
            if c == "\\" and i + 1 < n:
                i += 2
                continue
            if c == '"':
                in_str = False
            i += 1
            continue
        if is_space(c) and not in_b64:
            flush(i)
            i += 1
            continue
        if start is None:
            start = i
            if c == '"':
                in_str = True
                i += 1
                continue
        if c == "/" and i + 1 < n and line[i + 1] == "/" and not in_b64:
            flush(i)
            start = None
            break
        if c == "(" and line[start:i] in ("base64", "b64"):
            in_b64 = True
        elif c == ")" and in_b64:
            in_b64 = False
        elif c == ";" and not in_b64:
            flush(i)
            stmts.append(toks)
            toks = []
            i += 1
            continue
        i += 1
    else:
        flush(n)
    if in_str:
        raise TealSyntaxError("unterminated string literal: %r" % line)
    stmts.append(toks)
    return [s for s in stmts if s]


_ESC = {"n": 10, "r": 13, "t": 9, "\\": 92, '"': 34}


def parse_string_literal(tok):
    """tok includes the surrounding quotes; returns bytes."""
    if len(tok) < 2 or tok[0] != '"' or tok[-1] != '"':
        raise TealSyntaxError("bad string literal %r" % tok)
    raw = tok[1:-1].encode("utf-8")
    out = bytearray()
    i = 0
    while i < len(raw):
        c = raw[i]
        if c == 0x5C:
            if i + 1 >= len(raw):
                raise TealSyntaxError("dangling backslash")
            e = chr(raw[i + 1])
            if e in _ESC:
                out.append(_ESC[e])
                i += 2
            elif e == "x":
                hx = raw[i + 2:i + 4].decode("latin-1")
                if len(hx) != 2 or not re.fullmatch(r"[0-9a-fA-F]{2}", hx):
                    raise TealSyntaxError("bad \\x escape")
                out.append(int(hx, 16))
                i += 4
            else:
                raise TealSyntaxError("invalid escape \\%s" % e)
        elif c == 0x22:
            raise TealSyntaxError("unescaped quote inside literal")
        else:
            out.append(c)
            i += 1
    return bytes(out)


def _b32(s):
    pad = (-len(s)) % 8
    return base64.b32decode(s + "=" * pad)


def parse_bytes_tokens(toks):
    """byte-literal in any assembler spelling; returns (bytes, tokens consumed)."""
    t = toks[0]
    if t.startswith('"'):
        return parse_string_literal(t), 1
    if t.startswith("0x"):
        return bytes.fromhex(t[2:]), 1
    m = re.fullmatch(r"(base64|b64)\((.*)\)", t)
    if m:
        return base64.b64decode(m.group(2), validate=True), 1
    m = re.fullmatch(r"(base32|b32)\((.*)\)", t)
    if m:
        return _b32(m.group(2)), 1
    if t in ("base64", "b64"):
        return base64.b64decode(toks[1], validate=True), 2
    if t in ("base32", "b32"):
        return _b32(toks[1]), 2
    raise TealSyntaxError("bad byte literal %r" % t)


NAMED_INTS = {
    "NoOp": 0, "OptIn": 1, "CloseOut": 2, "ClearState": 3, "UpdateApplication": 4, "DeleteApplication": 5,
    "unknown": 0, "pay": 1, "keyreg": 2, "acfg": 3, "axfer": 4, "afrz": 5, "appl": 6,
}


TMPL = re.compile(r"TMPL_[A-Z0-9_]+")


def tmpl_value(name, n):
    """deterministic stand-in bytes for a template placeholder (same for every spelling of the load)."""
    return hashlib.sha256(name.encode()).digest()[:n]


def parse_int(t):
    if TMPL.fullmatch(t):
        return int.from_bytes(tmpl_value(t, 3), "big")
    if t in NAMED_INTS:
        return NAMED_INTS[t]
    if re.fullmatch(r"0x[0-9a-fA-F]+", t):
        return int(t, 16)
    if re.fullmatch(r"0[0-7]*", t) and t != "0":
        return int(t, 8)
    if re.fullmatch(r"[0-9]+", t):
        return int(t)
    raise TealSyntaxError("bad integer %r" % t)


def selector(sig):
    h = hashlib.new("sha512_256")
    h.update(sig.encode("utf-8"))
    return h.digest()[:4]


def decode_addr(a):
    raw = _b32(a)
    if len(raw) != 36:
        raise TealSyntaxError("bad address")
    return raw[:32]


_INTRE = re.compile(r"-?[0-9]+")


def instr(op, ln, i=(), b=(), s="", t=0, cs=(), raw=""):
    return {"op": op, "i": list(i), "b": list(b), "s": s, "t": t, "cs": [list(c) for c in cs], "ln": ln}


def parse_program(text):
    """Returns (instrs, problems).  problems: list of strings (undefined / duplicate labels, syntax)."""
    out = []
    problems = []
    lines = text.split("\n")
    for ln, line in enumerate(lines, 1):
        line = line.rstrip("\r")
        try:
            stmts = split_statements(line)
        except TealSyntaxError as e:
            problems.append("line %d: %s" % (ln, e))
            continue
        for toks in stmts:
            try:
                out.append(parse_statement(toks, ln))
            except (TealSyntaxError, ValueError, IndexError, base64.binascii.Error) as e:
                problems.append("line %d: %s" % (ln, e))
                out.append(instr("syntax-error", ln, s=" ".join(toks)[:60]))
    labels = {}
    for k, ins in enumerate(out, 1):
        if ins["op"] == "label":
            if ins["s"] in labels:
                problems.append("duplicate label %s" % ins["s"])
            else:
                labels[ins["s"]] = k
    for ins in out:
        if ins["op"] in ("b", "bz", "bnz", "callsub"):
            if ins["s"] in labels:
                ins["t"] = labels[ins["s"]]
            else:
                problems.append("undefined label %s" % ins["s"])
    return out, problems


def parse_statement(toks, ln):
    op = toks[0]
    args = toks[1:]
    if op == "#pragma":
        if len(args) == 2 and args[0] == "typetrack" and args[1] in ("true", "false"):
            return instr("pragma", ln, s="typetrack")
        if len(args) != 2 or args[0] != "version":
            raise TealSyntaxError("bad pragma")
        return instr("pragma", ln, i=[int(args[1])], s="version")
    if op.endswith(":") and not args:
        return instr("label", ln, s=op[:-1])
    if op in ("int", "pushint"):
        if len(args) != 1:
            raise TealSyntaxError("int needs one argument")
        v = parse_int(args[0])
        named = args[0] if (args[0] in NAMED_INTS or TMPL.fullmatch(args[0])) else ""
        if v >= 2 ** 64:
            raise TealSyntaxError("int too large")
        return instr(op, ln, b=digits(v), s=named)
    if op in ("byte", "pushbytes", "addr") and len(args) == 1 and TMPL.fullmatch(args[0]):
        return instr(op, ln, b=tmpl_value(args[0], 5), s=args[0])
    if op in ("byte", "pushbytes"):
        bs, used = parse_bytes_tokens(args)
        if used != len(args):
            raise TealSyntaxError("trailing tokens after byte literal")
        return instr(op, ln, b=bs)
    if op == "addr":
        if len(args) != 1:
            raise TealSyntaxError("addr needs one argument")
        return instr(op, ln, b=decode_addr(args[0]))
    if op == "method":
        if len(args) != 1:
            raise TealSyntaxError("method needs one argument")
        return instr(op, ln, b=selector(parse_string_literal(args[0]).decode("utf-8")))
    if op == "intcblock":
        return instr(op, ln, cs=[digits(parse_int(a)) for a in args], s=" ".join(a for a in args if TMPL.fullmatch(a)))
    if op == "bytecblock":
        cs = []
        k = 0
        while k < len(args):
            if TMPL.fullmatch(args[k]):
                cs.append(tmpl_value(args[k], 5))
                k += 1
                continue
            bs, used = parse_bytes_tokens(args[k:])
            cs.append(bs)
            k += used
        return instr(op, ln, cs=cs)
    m = re.fullmatch(r"(intc|bytec|arg)_([0-3])", op)
    if m and not args:
        return instr(op, ln, i=[int(m.group(2))])
    if op in ("b", "bz", "bnz", "callsub"):
        if len(args) != 1:
            raise TealSyntaxError("branch needs one label")
        return instr(op, ln, s=args[0])
    ints = []
    strs = []
    for a in args:
        if _INTRE.fullmatch(a):
            ints.append(int(a))
        else:
            strs.append(a)
    if len(strs) > 1:
        raise TealSyntaxError("too many symbolic immediates: %r" % (toks,))
    return instr(op, ln, i=ints, s=strs[0] if strs else "")


def strip_comments(text):
    """The executable content of a TEAL text: statements as token lists, comments removed."""
    res = []
    for line in text.split("\n"):
        for toks in split_statements(line.rstrip("\r")):
            res.append(toks)
    return res


def canonical_labels(stmts):
    """statement stream with labels renamed by order of definition (texts that differ only in label names become equal)"""
    names = {}
    for toks in stmts:
        if len(toks) == 1 and toks[0].endswith(":"):
            names.setdefault(toks[0][:-1], "L%d" % len(names))
    out = []
    for toks in stmts:
        if len(toks) == 1 and toks[0].endswith(":"):
            out.append([names[toks[0][:-1]] + ":"])
        elif toks and toks[0] in ("b", "bz", "bnz", "callsub") and len(toks) == 2:
            out.append([toks[0], names.get(toks[1], toks[1])])
        else:
            out.append(list(toks))
    return out

