"""Outcome-class validation shared by C20 (totality) and C17 (read-before-write): recipes are compiled by the
real PyTeal under many settings, the outcome classes are judged by TLC against spec/Compile.tla."""
import os
from concurrent.futures import ThreadPoolExecutor

import pipeline
import tlc


def settings_grid(versions=range(2, 11), modes=("app", "sig"), opts=((None, None),)):
    out = []
    for v in versions:
        for m in modes:
            for ss, fp in opts:
                if fp is True and v < 8:
                    continue            # frame pointers cannot be requested below version 8 (PyTeal refuses the option itself)
                st = {"v": v, "mode": m}
                if ss is not None:
                    st["ss"] = ss
                if fp is not None:
                    st["fp"] = fp
                out.append(st)
    return out


def with_requested_ids(prog, base=200):
    """the same recipe with every variable given an explicitly requested slot id (base, base+1, ...)"""
    q = dict(prog)
    q["vars"] = [dict(v, slot=base + j) for j, v in enumerate(prog.get("vars", []))]
    return q


def collect(progs, settings_of):
    """-> (entries for Compile.tla, raw results)"""
    jobs = [(p, settings_of(p)) for p in progs]
    results = pipeline.compile_all(jobs)
    entries = []
    for p, rs in zip(progs, results):
        outs = []
        for r in rs:
            st = r["st"]
            cls = "teal" if "teal" in r else ("pyteal" if r.get("pyteal_error") else "other")
            outs.append({"v": st["v"], "mode": st.get("mode") or p.get("mode", "app"), "tag": pipeline.settings_tag(st),
                         "opt": bool(pipeline._opt_on(st)), "ac": 1 if st.get("ac") else 0, "cls": cls, "err": r.get("err", ""), "cvar": r.get("cvar", 0)})
        entries.append({"recipe": {"main": p["main"], "rt": p.get("rt", []), "vars": p.get("vars", [])}, "outs": outs})
    return entries, results


def judge(entries, name, chunks=8, workers_per=2, timeout=1700, per_chunk=100):
    """Runs spec/Compile.tla.  Returns (verdicts: idx -> [clauses, initclass, minv], results, errors)."""
    if not entries:
        return {}, [], []
    chunks = max(1, min(chunks, (len(entries) + per_chunk - 1) // per_chunk))
    size = (len(entries) + chunks - 1) // chunks
    parts = [(ci, entries[ci * size:(ci + 1) * size]) for ci in range(chunks) if entries[ci * size:(ci + 1) * size]]
    wd = tlc.workdir("compile_" + name)
    cfg = "SPECIFICATION Spec\nCHECK_DEADLOCK FALSE\n"

    def one(part):
        ci, ents = part
        bf = os.path.join(wd, "batch_%d.json" % ci)
        tlc.dump_json(bf, ents)
        res = tlc.run_tlc("Compile", cfg, wd, env={"BATCH_FILE": bf}, workers=workers_per, timeout=timeout,
                          tag="chunk%d" % ci, xmx="3g")
        try:
            os.remove(bf)
        except OSError:
            pass
        return ci, res

    verdicts, errors, results = {}, [], []
    with ThreadPoolExecutor(max_workers=len(parts)) as ex:
        for ci, res in ex.map(one, parts):
            results.append(res)
            if res.error:
                errors.append("chunk %d: %s\n%s" % (ci, res.error, tlc.tail(res, 25)))
            for v in res.verdicts:
                idx = ci * size + int(v[0]) - 1
                if idx in verdicts and verdicts[idx] != v[1:]:
                    errors.append("conflicting verdicts for entry %d" % idx)
                verdicts[idx] = v[1:]
    if len(verdicts) != len(entries) and not errors:
        errors.append("%d of %d compile verdicts missing" % (len(entries) - len(verdicts), len(entries)))
    return verdicts, results, errors


def clauses(v):
    """'3=crash:AssertionError;7=...;' -> [(3, 'crash:AssertionError'), ...]"""
    if v[0] == "ok":
        return []
    out = []
    for part in v[0].split(";"):
        if part:
            j, c = part.split("=", 1)
            out.append((int(j), c))
    return out
