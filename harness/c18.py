"""C18 - comments, pragmas, nonces and names never change the code.

spec -> code: programs from the spec/Gen.tla streams (control, effects, nested loops, routines); for each, annotated
variants: Comment wrapped around randomly chosen nodes (any position: operands, conditions, branches, loop bodies),
Assert comments, Pragma wrappers, a Nonce wrapper, subroutine names - with annotation texts concretised from the
character classes of spec/LitGen.tla (quotes, backslashes, '//', ';', '#', blanks, line breaks, controls, non-ASCII).
code -> spec: the annotated and the plain TEAL text are lexed character by character with the assembler's line
grammar in TLA+ (spec/TealLex.tla); spec/Lex.tla requires the two statement streams to be equal up to a renaming
of labels (a bijection by order of definition, no duplicate label) and, for Nonce, the documented push+pop pair.
Every setting (slot optimisation on/off) is compared, so an annotation that perturbs an optimisation is seen."""
import copy
import os
import random
import sys

sys.path.insert(0, os.path.dirname(os.path.abspath(__file__)))
import common  # noqa: E402
import gen  # noqa: E402
import lexrun  # noqa: E402
import pipeline  # noqa: E402
import streams  # noqa: E402
from c13 import STR_CLASSES, concretise  # noqa: E402
from findings import classify_c18  # noqa: E402


def texts(rnd, n):
    out = []
    for _ in range(n):
        ln = rnd.choice((1, 2, 3, 5, 9))
        out.append("".join(rnd.choice(rnd.choice(STR_CLASSES)) for _ in range(ln)))
    words = ["err", "int 1", "return", "pop", "the", "quick", "b main_l0", "callsub x", "//", ";", "0x00"]
    for n in (120, 257, 300, 700, 2000):
        t = ""
        while len(t) < n:
            t += rnd.choice(words) + " "
        out.append(t[:n - 4] + " err")
    return out + ["plain comment", "", " ", "// nested", "a;b", "x\ny", "x\r\ny", 'say "hi"', "tab\there", "err", "\nerr\n", "#pragma version 2", "int 1; return"]


def nodes_of(prog):
    out = [prog["main"]] + [r["body"] for r in prog.get("rt", [])]
    res = []
    while out:
        nd = out.pop()
        res.append(nd)
        out.extend(nd["a"])
    return res


def annotate(prog, rnd, pool, mode):
    """returns (annotated program, skip positions of the nonce pair)"""
    q = copy.deepcopy(prog)
    skip = []
    nds = nodes_of(q)
    if mode == "comment":
        for nd in rnd.sample(nds, min(len(nds), rnd.choice((1, 2, 3)))):
            if nd["t"] == "r":
                continue
            inner = dict(nd)
            nd.update({"k": "Comment", "s": rnd.choice(pool), "a": [inner], "n": [], "i": []})
    elif mode == "assert":
        asserts = [nd for nd in nds if nd["k"] == "Assert"]
        if not asserts:
            return None, skip
        for nd in asserts:
            nd["s"] = rnd.choice(pool) or "c"
    elif mode == "pragma":
        nd = rnd.choice(nds)
        if nd["t"] == "r":
            return None, skip
        inner = dict(nd)
        nd.update({"k": "Pragma", "s": rnd.choice((">=0.1.0", "<100.0.0", ">=0.20.0")), "a": [inner], "n": [], "i": []})
    elif mode == "nonce":
        inner = dict(q["main"])
        q["main"] = {"k": "Nonce", "t": inner["t"], "n": [rnd.randrange(256) for _ in range(rnd.choice((1, 4, 8)))], "s": "", "a": [inner], "i": [], "sp": 0}
        if rnd.random() < 0.6:              # other bases, well formed and nearly well formed texts (PyTeal may refuse them; if it accepts, one push + pop)
            import base64
            raw = bytes(rnd.randrange(256) for _ in range(rnd.choice((0, 1, 2, 3, 4, 5, 8, 32))))
            base = rnd.choice(("base64", "base32", "base16", "utf8"))
            good = {"base64": base64.b64encode(raw).decode(), "base32": base64.b32encode(raw).decode(), "base16": raw.hex(), "utf8": rnd.choice(pool)}[base]
            text = rnd.choice((good, good, good + "\n", good + " ", "\n" + good, good.rstrip("="), good + "\r", good + ")", good + "//x", good + ";int 0")) if base != "utf8" else good
            q["main"]["s"] = base + ":" + text
        skip = [2, 3]
    elif mode == "name":
        if not q.get("rt"):
            return None, skip
        for r in q["rt"]:
            r["name"] = rnd.choice(pool) or "f"
    elif mode == "samename":            # different subroutines with one and the same name
        if len(q.get("rt", [])) < 2:
            return None, skip
        nm = rnd.choice(("f", "same name", "dup-1", rnd.choice(pool) or "g"))
        for r in q["rt"]:
            r["name"] = nm
    return q, skip


def main():
    chk = common.Check("C18")
    tier, seed = common.tier(), common.seed()
    rnd = random.Random(seed)
    q = tier == "quick"
    base, gres = [], []
    for name, alpha, n, cap in (("control", streams.A_CONTROL, 6, 150 if q else 1500), ("effects", streams.A_EFFECTS, 6, 150 if q else 1500),
                                ("nest", streams.A_NEST, 8, 100 if q else 1000), ("optm", streams.A_OPTM, 7, 150 if q else 1500)):
        c = dict(alpha)
        c["MaxNodes"] = n
        c["SigsName"] = "none"
        rs, res = gen.run_builder(c, "c18_" + name, workers=8, timeout=1500, cap=cap, rnd=rnd)
        gres.append(res)
        base += [streams.with_vars(streams.finalize(p), c) for p in rs]
    rp, rres = streams.c02_programs(tier, seed, rnd, caps=(40, 40) if q else (400, 400))
    base += rp
    for r in gres + rres:
        chk.add_tlc(r)
        if r.error:
            chk.machinery_failure("Gen run failed: " + r.error)
    pool = texts(rnd, 60 if q else 400)
    variants = []          # (plain prog, annotated prog, skip, mode)
    for p in base:
        for mode in ("comment", "comment", "assert", "pragma", "nonce", "name", "samename"):
            a, skip = annotate(p, rnd, pool, mode)
            if a is not None:
                variants.append((p, a, skip, mode))
    settings = [{"v": 6, "ss": False}, {"v": 9, "ss": True}] if q else [{"v": 4, "ss": False}, {"v": 6, "ss": True}, {"v": 8, "ss": False}, {"v": 10, "ss": True}]
    plain = pipeline.compile_all([(p, settings) for p, _, _, _ in variants])
    annot = pipeline.compile_all([(a, settings) for _, a, _, _ in variants])
    entries, desc = [], []
    for (p, a, skip, mode), rp_, ra in zip(variants, plain, annot):
        for st, x, y in zip(settings, rp_, ra):
            if "teal" not in x:
                continue
            if "teal" not in y:
                if mode in ("name", "samename") or y.get("pyteal_error"):
                    # PyTeal may refuse an annotation text (that is not "changing the code"); a crash is C20's business
                    continue
                chk.report("C18/annotation-crash/%s/%s" % (mode, y.get("err")), "annotated variant raised %s: %s" % (y.get("err"), y.get("msg", "")[:150]),
                           {"mode": mode, "recipe": a})
                continue
            entries.append({"kind": "strip", "a": lexrun.lines_of(y["teal"]), "b": lexrun.lines_of(x["teal"]), "skip": skip})
            desc.append((mode, st, a, y["teal"], x["teal"], p))
    verdicts, tres, errors = lexrun.run(entries, "c18")
    for r in tres:
        chk.add_tlc(r)
    for e in errors:
        chk.machinery_failure(e)
    modes = {}
    for idx, c in sorted(verdicts.items()):
        mode, st, a, ta, tb, pl = desc[idx]
        modes[mode] = modes.get(mode, 0) + 1
        if c != "ok":
            key = classify_c18(mode, st, a, pl, ta, tb, c) or "C18/%s/%s/%s" % (mode, c.split(" ")[0], streams.shape_digest(a))
            chk.report(key, "%s annotation changed the statement stream (%s) at %r" % (mode, c, st),
                       {"mode": mode, "st": st, "recipe": a, "annotated": ta[:3000], "plain": tb[:3000], "clause": c})
    if desc:
        chk.sample({"mode": desc[0][0], "annotated": desc[0][3][:500], "plain": desc[0][4][:300]})
    chk.cov["traces_validated_against_impl"] = len(entries)
    chk.cov["evaluations"] = len(entries)
    chk.cov["distinct_nontrivial"] = len(set(streams.shape_digest(d[2]) for d in desc))
    chk.notes.update({"base_programs": len(base), "variants_by_mode": modes, "annotation_texts": len(pool),
                      "rule": "base programs from spec/Gen.tla; annotated variants by mode; an evaluation is one (annotated, plain) text pair "
                              "lexed and compared by TLC; non-trivial = distinct annotated recipe"})
    chk.assumptions += ["TealLex.tla transcribes the assembler's line grammar", "an annotation text PyTeal refuses with a PyTeal error is not a violation"]
    chk.finish()


if __name__ == "__main__":
    main()
