"""C12 - assembleConstants changes how constants load, not their values.

spec -> code: programs that load a multiset of constants (each logged, so its run-time value is observable):
repeated / unique, ints around 2^7, 2^8, 2^16, 2^32, 2^63, 2^64-1, named enum values, every byte-literal
spelling of the same value (utf-8 string, base16, base32, base64), strings with escapes and non-ASCII
characters, addresses, method selectors, template placeholders, more than 4 and more than 255 distinct
repeated constants, frequency ties; multisets are enumerated from structured families plus seeded samples.
code -> spec: each program is compiled with assembleConstants off and on (versions 3..10); TLC
(spec/Refine.tla) checks (a) site by site that the value every constant-load instruction pushes - block
indices resolved through intcblock / bytecblock - is the one the pseudo-op program has at that site, and that
the non-constant instruction streams are identical (ConstSitesAgree), (b) that both texts run to the outcome
the source semantics gives (logs = the constants in order)."""
import base64
import os
import random
import sys

sys.path.insert(0, os.path.dirname(os.path.abspath(__file__)))
import common  # noqa: E402
import pipeline  # noqa: E402
import streams  # noqa: E402
import tealtok  # noqa: E402
from streams import N  # noqa: E402

ADDRS = ["AAAAAAAAAAAAAAAAAAAAAAAAAAAAAAAAAAAAAAAAAAAAAAAAAAAAY5HFKQ", "7777777777777777777777777777777777777777777777777774MSJUVU"]


def _addr_pk(a):
    return list(tealtok.decode_addr(a))


def const_pool():
    """(node, loggable-as) list: uint64 constants are logged through Itob, byte constants directly"""
    ints = [0, 1, 2, 3, 5, 100, 127, 128, 129, 255, 256, 257, 1000, 65535, 65536, 100000, 2 ** 32 - 1, 2 ** 32, 2 ** 63, 2 ** 64 - 1]
    pool = [N("Int", n=tealtok.digits(v)) for v in ints]
    pool += [N("Int", n=tealtok.digits(tealtok.NAMED_INTS[e]), s="enum:" + e) for e in ("NoOp", "OptIn", "DeleteApplication", "pay", "appl", "axfer")]
    pool += [N("Int", n=tealtok.digits(int.from_bytes(tealtok.tmpl_value("TMPL_" + t, 3), "big")), s="tmpl:TMPL_" + t) for t in ("A", "B")]
    # lengths 1..5 and 8 give every length class of base32 (2, 4, 5, 7, 0 modulo 8 characters) and base64 (0, 1, 2 padding characters)
    raws = [b"", b"a", b"ab", b"abc", b"abcd", b"abcde", b"12345678", b"\x00", b"\xff\x00", b"hello world", bytes(range(32)), b"a" * 64]
    for raw in raws:
        for sp in (0, 1, 2, 3, 4):
            if sp in (3, 4) and not raw:
                continue
            nd = N("Bytes", "b", n=list(raw))
            nd["sp"] = sp
            pool.append(nd)
    for text in ("a", "hello world", "café", "q\"uote", "back\\slash", "new\nline", "tab\t;semi // c", "世界"):
        pool.append(N("Bytes", "b", n=list(text.encode("utf-8")), s="str:" + text))
    pool += [N("Bytes", "b", n=_addr_pk(a), s="addr:" + a) for a in ADDRS]
    pool += [N("Bytes", "b", n=list(tealtok.selector(sig)), s="method:" + sig) for sig in ("add(uint64,uint64)uint64", "f()void")]
    # the same *text* under different constructors denotes different bytes (string vs selector vs public key vs placeholder)
    pool += [N("Bytes", "b", n=list(t.encode()), s="str:" + t) for t in ("add(uint64,uint64)uint64", "f()void", ADDRS[0], "TMPL_BA", "0x6162", "base64(YQ==)", "5")]
    pool += [N("Bytes", "b", n=list(tealtok.tmpl_value("TMPL_" + t, 5)), s="tmpl:TMPL_" + t) for t in ("BA", "BB")]
    pool += [N("Bytes", "b", n=list(tealtok.tmpl_value("TMPL_AD", 5)), s="tmpladdr:TMPL_AD")]
    return pool


def use(nd, log):
    if log:
        return N("Log", "n", a=[N("Op", "b", s="itob", a=[nd]) if nd["t"] == "u" else nd])
    return N("Pop", "n", a=[nd])


def program(consts, tag):
    """logs the first 30 uses (log limit), pops the rest"""
    body, logged = [], 0
    for nd in consts:
        size = 8 if nd["t"] == "u" else len(nd["n"])
        ok = logged < 30 and size <= 32
        body.append(use(nd, ok))
        logged += 1 if ok else 0
    return {"main": N("Seq", "u", a=body + [N("Int", n=[1])]), "rt": [], "vars": [], "mode": "app", "big": tag}


def programs(tier, rnd):
    pool = const_pool()
    ints = [p for p in pool if p["t"] == "u"]
    byts = [p for p in pool if p["t"] == "b"]
    out = []
    # structured families: k distinct constants each used r times, by kind
    for kind, src in (("int", ints), ("bytes", byts), ("mixed", pool)):
        for k in (1, 2, 4, 5, 6, 9):
            for r in (1, 2, 3):
                for rep in range(3 if tier == "quick" else 8):
                    cs = rnd.sample(src, min(k, len(src)))
                    seq = [c for c in cs for _ in range(r)]
                    rnd.shuffle(seq)
                    out.append(program(seq, "%s-k%d-r%d-%d" % (kind, k, r, rep)))
    # frequency ladders (ties and strict orders) over small/large ints: the pushint / intcblock membership rule
    small = [p for p in ints if len(p["n"]) <= 1 and not p["s"]][:8]
    large = [p for p in ints if len(p["n"]) >= 2 and not p["s"]][:8]
    for rep in range(6 if tier == "quick" else 30):
        cs = rnd.sample(small, 4) + rnd.sample(large, 3) + rnd.sample(small + large, 2)
        seq = []
        for j, c in enumerate(cs):
            seq += [c] * rnd.choice((2, 2, 3, 4, 5 + j % 3))
        rnd.shuffle(seq)
        out.append(program(seq, "ladder-%d" % rep))
    # every spelling of the same byte value together
    for raw in (b"a", b"hello world", b"\xff\x00"):
        same = [p for p in byts if bytes(p["n"]) == raw]
        out.append(program(same * 2, "spellings-%s" % raw.hex()))
    # one text, several constructors: both orders, once and repeated (constant block membership)
    bytext = {}
    for p_ in byts:
        if p_["s"]:
            bytext.setdefault(p_["s"].split(":", 1)[1], []).append(p_)
    for text, group in sorted(bytext.items()):
        if len(group) > 1:
            for r in (1, 2, 3):
                out.append(program(group * r, "sametext-%d-%s" % (r, text[:12])))
                out.append(program(list(reversed(group)) * r, "sametext-rev-%d-%s" % (r, text[:12])))
    # more than 255 distinct repeated constants
    many = [N("Int", n=tealtok.digits(1000 + 3 * j)) for j in range(260 if tier == "quick" else 300)]
    out.append(program(many + many, "many-ints"))
    manyb = [N("Bytes", "b", n=[j // 256, j % 256, 7]) for j in range(260)]
    out.append(program(manyb + manyb, "many-bytes"))
    # seeded random multisets
    for rep in range(300 if tier == "quick" else 3000):
        seq = [rnd.choice(pool) for _ in range(rnd.choice((3, 6, 12, 20, 28)))]
        out.append(program(seq, "random-%d" % rep))
    return out


def settings(p):
    vs = (3, 5, 8, 10) if common.tier() == "quick" else range(3, 11)
    if p["big"].startswith("many"):
        vs = (5, 10)
    return [{"v": v, "ac": ac} for v in vs for ac in (False, True)]


def main():
    if os.environ.get("VERIF_REPLAY"):
        streams.replay_refinement("C12", os.environ["VERIF_REPLAY"], invariant="SameBehaviour")
    chk = common.Check("C12")
    tier, seed = common.tier(), common.seed()
    rnd = random.Random(seed)
    progs = programs(tier, rnd)
    results = pipeline.compile_all([(p, settings(p)) for p in progs])
    entries, metas, owners = [], [], []
    npairs = ncompiled = 0
    for p, rs in zip(progs, results):
        for r in rs:
            if "teal" not in r and r["st"]["v"] >= 5:
                chk.report("C12/does-not-compile/%s" % p["big"], "%s at %r: %s %s" % (p["big"], r["st"], r.get("err"), r.get("msg", "")[:200]),
                           {"program": p["big"], "st": r["st"]})
        ncompiled += sum(1 for r in rs if "teal" in r)
        e, meta = pipeline.make_entry(len(entries) + 1, p, rs, pipeline.make_cx(p))
        e["constcheck"] = 1
        if e["texts"]:
            npairs += sum(1 for t in e["texts"] if t["cmp"])
            entries.append(e)
            metas.append(meta)
            owners.append(p)
    verdicts, tres, errors = pipeline.run_refine(entries, "c12", max_steps=4000, chunks=4)
    for r in tres:
        chk.add_tlc(r)
    for e in errors:
        chk.machinery_failure(e)
    missing = pipeline.expected_keys(entries) - set(verdicts)
    if missing and not errors:
        chk.machinery_failure("%d verdicts missing, e.g. %r" % (len(missing), sorted(missing)[:3]))
    for (idx, cid, k), v in sorted(verdicts.items()):
        if v[3] not in ("ok", "inconclusive"):
            chk.report("C12/%s/%s" % (v[3], owners[idx]["big"]), "%s compiled as %s: source meaning %s, TEAL run %s" % (
                owners[idx]["big"], ",".join(metas[idx][k - 1]["tags"]), v[4], v[5]),
                {"program": owners[idx]["big"], "recipe": entries[idx]["recipe"] if len(str(entries[idx]["recipe"])) < 20000 else "(large)",
                 "cx": entries[idx]["cx"], "cid": cid, "st": metas[idx][k - 1]["st"], "verdict": v, "text": metas[idx][k - 1]["text"][:6000],
                 "vars": [], "mode": "app"})
    for idx in range(min(2, len(entries))):
        pair = [m for m in metas[idx] if m["st"].get("ac")]
        chk.sample({"program": owners[idx]["big"], "assembled": pair[0]["text"][:700] if pair else "", "plain": metas[idx][0]["text"][:500]})
    chk.cov["traces_validated_against_impl"] = ncompiled
    chk.cov["evaluations"] = len(verdicts)
    chk.cov["distinct_nontrivial"] = npairs
    chk.notes.update({"programs": len(progs), "assembled_vs_plain_pairs": npairs,
                      "inconclusive": sum(1 for v in verdicts.values() if v[3] == "inconclusive"),
                      "rule": "constant multisets: structured families (k distinct x r uses, per kind), frequency ladders, all spellings of one value, "
                              ">255 distinct repeated constants, seeded random multisets; non-trivial = (assembled, plain) pair with different text"})
    if npairs == 0:
        chk.machinery_failure("vacuous: no assembled/plain pair")
    chk.assumptions += ["template placeholders are given the same deterministic stand-in value in every spelling",
                        "method selectors / address decoding computed by the harness (hashlib sha512_256, base32)"]
    chk.finish()


if __name__ == "__main__":
    main()
