"""C20 - compilation is total: TEAL or a PyTeal error, never a crash; acceptable programs are accepted.

spec -> code: programs are the behaviours of spec/Gen.tla (every finished behaviour is well typed by
construction) over the C01 alphabets, a degenerate-shape alphabet (loops first, bodies of only Break/Continue,
empty Seqs, uninitialised variables) and a routine alphabet, plus size-parametrised long/deep programs.
code -> spec: each is compiled by the real PyTeal for versions 2..10 x {Application, Signature} x option
settings; the outcome class (TEAL / PyTeal error / foreign exception) is judged by TLC on spec/Compile.tla
against Accepts.tla (MinVersion, ModeOK, definite initialisation)."""
import os
import random
import sys

sys.path.insert(0, os.path.dirname(os.path.abspath(__file__)))
import common  # noqa: E402
import outcomes  # noqa: E402
import streams  # noqa: E402


def main():
    chk = common.Check("C20")
    tier, seed = common.tier(), common.seed()
    rnd = random.Random(seed)
    progs, gres = streams.c20_programs(tier, seed, rnd)
    for r in gres:
        chk.add_tlc(r)
        if r.error:
            chk.machinery_failure("Builder run failed: %s\n%s" % (r.error, r.out[-1500:]))
    opts = [(None, None), (True, None), (False, False)] if tier == "quick" else \
        [(None, None), (True, None), (False, None), (True, False), (False, False), (True, True)]
    grid = outcomes.settings_grid(opts=opts)
    big_grid = outcomes.settings_grid(versions=(2, 6, 9), modes=("app",), opts=[(None, None), (False, False)])
    small_grid = outcomes.settings_grid(versions=(4, 9), modes=("app",), opts=[(None, None), (False, False)]) + outcomes.settings_grid(versions=(2,), modes=("sig",))
    sub_grid = outcomes.settings_grid(versions=(3, 4, 7, 8, 10), modes=("app",), opts=[(None, None), (True, False)]) + outcomes.settings_grid(versions=(6,), modes=("sig",))
    # constant assembly (needs version 3): the constant multisets of C12 (templates, every spelling, > 255 distinct) and two settings of the main grid
    import c12
    cprogs = [p for p in c12.programs(tier, rnd) if not p["big"].startswith("random")]
    if tier == "quick":
        cprogs = cprogs[::2]
    for p in cprogs:
        p["constgrid"] = 1
    progs += cprogs
    const_grid = [{"v": v, "mode": "app", "ac": ac} for v in (2, 3, 6, 10) for ac in (False, True)]
    grid = grid + [{"v": 2, "mode": "app", "ac": True}, {"v": 5, "mode": "app", "ac": True}, {"v": 10, "mode": "sig", "ac": True}]
    entries, raw = outcomes.collect(progs, lambda p: const_grid if p.get("constgrid") else big_grid if p.get("big") else (sub_grid if p.get("smallgrid") == 2 else small_grid if p.get("smallgrid") else grid))
    verdicts, tres, errors = outcomes.judge(entries, "c20")
    for r in tres:
        chk.add_tlc(r)
    for e in errors:
        chk.machinery_failure(e)
    nteal = nerr = 0
    shapes = set()
    for idx, v in sorted(verdicts.items()):
        e = entries[idx]
        nteal += sum(1 for o in e["outs"] if o["cls"] == "teal")
        nerr += sum(1 for o in e["outs"] if o["cls"] == "pyteal")
        if any(o["cls"] == "teal" for o in e["outs"]):
            shapes.add(streams.shape_digest(e["recipe"]) if not progs[idx].get("big") else progs[idx]["big"])
        for j, c in outcomes.clauses(v):
            if not (c.startswith("crash:") or c.startswith("rejected-acceptable:")):
                continue       # uninit-* clauses are C17's
            o = e["outs"][j - 1]
            r = raw[idx][j - 1]
            site = r.get("site", "")
            key = "C20/%s%s/%s" % (c, ("@" + site) if site else "", progs[idx].get("big") or streams.shape_digest(e["recipe"]))
            kf = streams.c20_known(progs[idx], c, site, r)
            chk.report(kf or key, "%s at %s: %s: %s" % (c, o["tag"], r.get("err"), r.get("msg", "")[:200]),
                       {"recipe": e["recipe"] if not progs[idx].get("big") else {"big": progs[idx]["big"]},
                        "vars": progs[idx].get("vars", []), "mode": o["mode"], "st": r["st"], "outcome": o, "verdict": v})
    for idx in sorted(verdicts)[:3]:
        if not progs[idx].get("big"):
            chk.sample({"recipe": entries[idx]["recipe"], "outcomes": [[o["tag"], o["cls"], o["err"]] for o in entries[idx]["outs"][:6]],
                        "verdict": verdicts[idx]})
    chk.cov["traces_validated_against_impl"] = sum(len(e["outs"]) for e in entries)
    chk.cov["evaluations"] = sum(len(e["outs"]) for e in entries)
    chk.cov["distinct_nontrivial"] = len(shapes)
    chk.notes.update({"recipes": len(progs), "compiled_to_teal": nteal, "rejected_with_pyteal_error": nerr,
                      "rule": "programs = finished behaviours of spec/Gen.tla (BFS per alphabet, sampled to a cap) plus "
                              "size-parametrised long/deep shapes; every (program, version, mode, options) compilation is one "
                              "evaluation; non-trivial = distinct program shape that compiled to TEAL under some setting"})
    chk.assumptions += ["Accepts.tla's version/mode table (conservative: unknown constructs are never predicted accepted)",
                        "well-typedness follows from the enabling conditions of Builder.tla"]
    chk.finish()


if __name__ == "__main__":
    main()
