"""C20 - compilation is total: TEAL or a PyTeal error, never a crash; acceptable programs are accepted.

spec -> code: programs are the behaviours of spec/Gen.tla (every finished behaviour is well typed by
construction) over the C01 alphabets, a degenerate-shape alphabet (loops first, bodies of only Break/Continue,
empty Seqs, uninitialised variables) and a routine alphabet, plus size-parametrised long/deep programs.
code -> spec: each is compiled by the real PyTeal for versions 2..10 x {Application, Signature} x option
settings; the outcome class (TEAL / PyTeal error / foreign exception) is judged by TLC on spec/Compile.tla
against Accepts.tla (MinVersion, ModeOK, definite initialisation)."""
import os
import random
import sys

sys.path.insert(0, os.path.dirname(os.path.abspath(__file__)))
import common  # noqa: E402
import outcomes  # noqa: E402
import streams  # noqa: E402


_SWEEP = None


def _sweep_entry(i):
    import replay
    pt = replay.pt
    what, mk = _SWEEP[i]
    rows = []
    for v in range(2, 11):
        for mode, m in (("app", pt.Mode.Application), ("sig", pt.Mode.Signature)):
            try:
                rows.append((v, mode, "teal", pt.compileTeal(mk(), m, version=v), ""))
            except replay.PYTEAL_ERRORS as e:
                rows.append((v, mode, "pyteal", "%s: %s" % (type(e).__name__, str(e)[:200]), ""))
            except Exception as e:  # noqa: BLE001
                rows.append((v, mode, "other", "%s: %s" % (type(e).__name__, str(e)[:200]), replay._raise_site(e)))
    return rows


def constructor_sweep(chk):
    """every constructor of the C04 catalogue x versions 2..10 x both modes: never a foreign exception; and when a program
    compiles in one mode only, the text it compiled to is judged by TealLegal.tla in the OTHER mode - if every instruction
    of it exists there, nothing in the program is specific to a mode and PyTeal must accept it in both"""
    import c04
    import replay
    import static
    pt = replay.pt
    global _SWEEP
    _SWEEP = c04.sweep()
    import multiprocessing as mp
    with mp.get_context("fork").Pool(14) as pool:          # the catalogue entries are closures: the children inherit them
        parts = pool.map(_sweep_entry, range(len(_SWEEP)), chunksize=4)
    res = {}
    attempts = 0
    for (what, _), rows in zip(_SWEEP, parts):
        for v, mode, cls, info, site in rows:
            attempts += 1
            res[(what, v, mode)] = (cls, info)
            if cls == "other" and site != "?":       # site "?": raised by the catalogue entry itself (an accessor this PyTeal does not have), not by PyTeal
                chk.report("C20/crash:%s@%s/%s" % (info.split(":")[0], site, what), "%s at version %d, %s mode: %s" % (what, v, mode, info), {"what": what, "v": v, "mode": mode})
    entries, owners = [], []
    for (what, v, mode), (cls, teal) in sorted(res.items()):
        other = "sig" if mode == "app" else "app"
        if cls == "teal" and res[(what, v, other)][0] == "pyteal":
            t = static.text_record(teal, v, other, tag="v%d,%s-text-read-in-%s" % (v, mode, other))
            entries.append({"texts": [t]})
            owners.append((what, v, mode, other, teal))
    lines, tres, errors = static.run(entries, "c20L", spec="LSpec")
    for r in tres:
        chk.add_tlc(r)
    for e in errors:
        chk.machinery_failure(e)
    got = {ln[1]: ln[3] for ln in lines if ln[0] == "L"}
    if len(got) != len(entries) and not errors:
        chk.machinery_failure("%d cross-mode legality verdicts missing" % (len(entries) - len(got)))
    legal_elsewhere = 0
    for idx, why in sorted(got.items()):
        if why == "":
            what, v, mode, other, teal = owners[idx]
            legal_elsewhere += 1
            chk.report("C20/rejected-acceptable-in-%s-mode/%s" % (other, what),
                       "%s at version %d compiles in %s mode to a text every instruction of which exists in %s mode too, but is refused there: %s" % (
                           what, v, mode, other, res[(what, v, other)][1]), {"what": what, "v": v, "text": teal[:3000], "refusal": res[(what, v, other)][1]})
    chk.notes["constructor_sweep"] = {"attempts": attempts, "teal": sum(1 for c, _ in res.values() if c == "teal"),
                                      "refused": sum(1 for c, _ in res.values() if c == "pyteal"), "one_mode_only_judged_in_the_other": len(entries)}
    return attempts


def main():
    chk = common.Check("C20")
    tier, seed = common.tier(), common.seed()
    rnd = random.Random(seed)
    progs, gres = streams.c20_programs(tier, seed, rnd)
    for r in gres:
        chk.add_tlc(r)
        if r.error:
            chk.machinery_failure("Builder run failed: %s\n%s" % (r.error, r.out[-1500:]))
    opts = [(None, None), (True, None), (False, False)] if tier == "quick" else \
        [(None, None), (True, None), (False, False), (True, True)]
    grid = outcomes.settings_grid(opts=opts)
    big_grid = outcomes.settings_grid(versions=(2, 6, 9), modes=("app",), opts=[(None, None), (False, False)])
    small_grid = outcomes.settings_grid(versions=(4, 9), modes=("app",), opts=[(None, None), (False, False)]) + outcomes.settings_grid(versions=(2,), modes=("sig",))
    sub_grid = outcomes.settings_grid(versions=(3, 4, 7, 8, 10), modes=("app",), opts=[(None, None), (True, False)]) + outcomes.settings_grid(versions=(6,), modes=("sig",))
    # constant assembly (needs version 3): the constant multisets of C12 (templates, every spelling, > 255 distinct) and two settings of the main grid
    import c12
    cprogs = [p for p in c12.programs(tier, rnd) if not p["big"].startswith("random")]
    if tier == "quick":
        cprogs = cprogs[::2]
    for p in cprogs:
        p["constgrid"] = 1
    progs += cprogs
    const_grid = [{"v": v, "mode": "app", "ac": ac} for v in (2, 3, 6, 10) for ac in (False, True)]
    grid = grid + [{"v": 2, "mode": "app", "ac": True}, {"v": 5, "mode": "app", "ac": True}, {"v": 10, "mode": "sig", "ac": True}]
    entries, raw = outcomes.collect(progs, lambda p: const_grid if p.get("constgrid") else big_grid if p.get("big") else (sub_grid if p.get("smallgrid") == 2 else small_grid if p.get("smallgrid") else grid))
    verdicts, tres, errors = outcomes.judge(entries, "c20")
    for r in tres:
        chk.add_tlc(r)
    for e in errors:
        chk.machinery_failure(e)
    nteal = nerr = 0
    shapes = set()
    for idx, v in sorted(verdicts.items()):
        e = entries[idx]
        nteal += sum(1 for o in e["outs"] if o["cls"] == "teal")
        nerr += sum(1 for o in e["outs"] if o["cls"] == "pyteal")
        if any(o["cls"] == "teal" for o in e["outs"]):
            shapes.add(streams.shape_digest(e["recipe"]) if not progs[idx].get("big") else progs[idx]["big"])
        for j, c in outcomes.clauses(v):
            if not (c.startswith("crash:") or c.startswith("rejected-acceptable:")):
                continue       # uninit-* clauses are C17's
            o = e["outs"][j - 1]
            r = raw[idx][j - 1]
            site = r.get("site", "")
            key = "C20/%s%s/%s" % (c, ("@" + site) if site else "", progs[idx].get("big") or streams.shape_digest(e["recipe"]))
            kf = streams.c20_known(progs[idx], c, site, r)
            chk.report(kf or key, "%s at %s: %s: %s" % (c, o["tag"], r.get("err"), r.get("msg", "")[:200]),
                       {"recipe": e["recipe"] if not progs[idx].get("big") else {"big": progs[idx]["big"]},
                        "vars": progs[idx].get("vars", []), "mode": o["mode"], "st": r["st"], "outcome": o, "verdict": v})
    nsweep = constructor_sweep(chk)
    for idx in sorted(verdicts)[:3]:
        if not progs[idx].get("big"):
            chk.sample({"recipe": entries[idx]["recipe"], "outcomes": [[o["tag"], o["cls"], o["err"]] for o in entries[idx]["outs"][:6]],
                        "verdict": verdicts[idx]})
    chk.cov["traces_validated_against_impl"] = sum(len(e["outs"]) for e in entries)
    chk.cov["evaluations"] = sum(len(e["outs"]) for e in entries) + nsweep
    chk.cov["distinct_nontrivial"] = len(shapes)
    chk.notes.update({"recipes": len(progs), "compiled_to_teal": nteal, "rejected_with_pyteal_error": nerr,
                      "rule": "programs = finished behaviours of spec/Gen.tla (BFS per alphabet, sampled to a cap) plus "
                              "size-parametrised long/deep shapes; every (program, version, mode, options) compilation is one "
                              "evaluation; non-trivial = distinct program shape that compiled to TEAL under some setting"})
    chk.assumptions += ["Accepts.tla's version/mode table (conservative: unknown constructs are never predicted accepted)",
                        "well-typedness follows from the enabling conditions of Builder.tla"]
    chk.finish()


if __name__ == "__main__":
    main()
