"""PyTeal ABI programs for the C06/C07 checks (glue: type record + sample value -> constructor calls)."""
import abitypes
from streams import N

pt = abitypes.pt
abi = pt.abi


def build_value(t, v, stmts, leaf_mode="literal"):
    """creates an ABI instance holding v, assembled from its parts with set(...); statements are appended to stmts"""
    spec = abitypes.to_spec(t)
    x = spec.new_instance()
    k = t["k"]
    if k == "uint":
        n = abitypes.py_value(t, v)
        stmts.append(x.set(n if leaf_mode == "literal" else pt.Int(n)))
    elif k == "bool":
        stmts.append(x.set(bool(v) if leaf_mode == "literal" else pt.Int(v)))
    elif k == "byte":
        stmts.append(x.set(v if leaf_mode == "literal" else pt.Int(v)))
    elif k == "address":
        stmts.append(x.set(bytes(v) if leaf_mode == "literal" else pt.Bytes(bytes(v))))
    elif k == "string":
        stmts.append(x.set(bytes(v) if leaf_mode == "literal" else pt.Bytes(bytes(v))))
    elif k in ("sarray", "darray"):
        parts = [build_value(t["e"], e, stmts, leaf_mode) for e in v]
        stmts.append(x.set(parts))
    elif k == "tuple":
        parts = [build_value(e, ev, stmts, leaf_mode) for e, ev in zip(t["es"], v)]
        stmts.append(x.set(*parts))
    else:
        raise ValueError(k)
    return x


def wrap(body_fn, in_sub):
    """body_fn() -> list of statements ending the routine; either main routine or a subroutine called from main"""
    if not in_sub:
        return pt.Seq(*body_fn(), pt.Int(1))

    @pt.Subroutine(pt.TealType.none)
    def worker():
        return pt.Seq(*body_fn())
    return pt.Seq(worker(), pt.Int(1))


def encode_program(t, v, in_sub=False, leaf_mode="literal"):
    def body():
        stmts = []
        x = build_value(t, v, stmts, leaf_mode)
        return stmts + [pt.Log(x.encode())]
    return wrap(body, in_sub)


def expect_log(encs):
    """recipe of the expected behaviour: log the given byte strings, approve"""
    return {"main": N("Seq", "u", a=[N("Log", "n", a=[N("Bytes", "b", n=list(e))]) for e in encs] + [N("Int", n=[1])]), "rt": [], "vars": [], "mode": "app"}


def expect_fail():
    return {"main": N("Err", "n"), "rt": [], "vars": [], "mode": "app"}


def compile_ast(ast, version, **kw):
    try:
        return {"teal": pt.compileTeal(ast, pt.Mode.Application, version=version, **kw)}
    except abitypes.replay.PYTEAL_ERRORS as e:
        return {"err": type(e).__name__, "pyteal_error": True, "msg": str(e)[:300]}
    except Exception as e:  # noqa: BLE001
        return {"err": type(e).__name__, "pyteal_error": False, "msg": str(e)[:300]}
