"""Assembling validation batches: recipe + compiled texts -> JSON entries for spec/Refine.tla etc."""
import re
import tealtok

_LABEL = re.compile(r"^(r(\d+))_\d+$")


def routine_table(prog, instrs):
    """label -> declared [na, nr] for the ghost checks of AVM.tla (from the recipe's routine table)."""
    R = {"_": {"na": 0, "nr": 0}}
    rt = prog.get("rt", [])
    for ins in instrs:
        if ins["op"] == "label":
            m = _LABEL.match(ins["s"])
            if m and 1 <= int(m.group(2)) <= len(rt):
                r = rt[int(m.group(2)) - 1]
                R[ins["s"]] = {"na": len(r["pk"]), "nr": 0 if r["ret"] == "n" else 1}
    return R


def text_entry(prog, teal, tag):
    instrs, problems = tealtok.parse_program(teal)
    return {"teal": instrs, "R": routine_table(prog, instrs), "tag": tag, "problems": problems}


def default_cx(prog, args=(), ocs=(0,), appids=(5,), gsizes=(1,), gss=None, has=(1,)):
    return {"args": list(args), "ocs": list(ocs), "appids": list(appids), "gsizes": list(gsizes),
            "gss": gss if gss is not None else [[]], "has": list(has), "mode": prog.get("mode", "app")}


def nctx(cx, domsizes):
    n = 1
    for a in cx["args"]:
        n *= domsizes[a]
    return n * len(cx["ocs"]) * len(cx["appids"]) * len(cx["gsizes"]) * len(cx["gss"]) * len(cx["has"])


DOMSIZES = {"u3": 3, "u4": 4, "u6": 6, "w8": 8, "w5": 5, "w4": 4, "w3": 3, "w2": 2, "b3": 3, "b4": 4, "k2": 2,
            "x16": 16, "x8": 8, "x4": 4}
