"""Program generation: runs spec/Gen.tla under TLC (exhaustive BFS or -simulate) and collects the
recipes printed at every Finish.  The specification decides which programs exist; this is plumbing."""
import json
import os
import tlc


def cfg_text(c):
    def tset(xs):
        return "{" + ", ".join('"%s"' % x for x in sorted(xs)) + "}"
    lines = ["SPECIFICATION Spec", "CONSTANTS",
             "MaxNodes = %d" % c["MaxNodes"],
             "Leaves = " + tset(c["Leaves"]),
             "UnOps = " + tset(c.get("UnOps", [])),
             "BinOps = " + tset(c.get("BinOps", [])),
             "NaryOps = " + tset(c.get("NaryOps", [])),
             "TerOps = " + tset(c.get("TerOps", [])),
             "Stmts = " + tset(c.get("Stmts", [])),
             "Ctrl = " + tset(c.get("Ctrl", [])),
             "NVarsU = %d" % c.get("NVarsU", 0),
             "NVarsB = %d" % c.get("NVarsB", 0),
             "InitVars = %s" % ("TRUE" if c.get("InitVars", True) else "FALSE"),
             'SigsName = "%s"' % c.get("SigsName", "none"),
             "NLocals = %d" % c.get("NLocals", 0),
             "NCtr = %d" % c.get("NCtr", 0),
             "CHECK_DEADLOCK FALSE"]
    return "\n".join(lines) + "\n"


def run_builder(c, name, simulate=None, depth=None, seed=None, workers=8, timeout=900, module="Gen"):
    """Returns (recipes, TLCResult).  Recipes are de-duplicated (a printing action may be evaluated twice)."""
    wd = tlc.workdir("gen_" + name)
    res = tlc.run_tlc(module, cfg_text(c), wd, workers=workers, timeout=timeout, simulate=simulate,
                      depth=depth, seed=seed, xss="64m")
    seen = set()
    out = []
    for line in res.out.splitlines():
        if line.startswith('"R|'):
            try:
                s = json.loads(line)
            except ValueError:
                continue
            body = s[2:]
            if body in seen:
                continue
            seen.add(body)
            out.append(json.loads(body))
    return out, res


def walk(node):
    yield node
    for ch in node["a"]:
        yield from walk(ch)


def prog_nodes(prog):
    yield from walk(prog["main"])
    for r in prog.get("rt", []):
        yield from walk(r["body"])
