"""Program generation: runs spec/Gen.tla under TLC (exhaustive BFS or -simulate) and collects the
recipes printed at every Finish.  The specification decides which programs exist; this is plumbing."""
import gzip
import hashlib
import json
import os
import tlc


def cfg_text(c):
    def tset(xs):
        return "{" + ", ".join('"%s"' % x for x in sorted(xs)) + "}"
    lines = ["SPECIFICATION Spec", "CONSTANTS",
             "MaxNodes = %d" % c["MaxNodes"],
             "Leaves = " + tset(c["Leaves"]),
             "UnOps = " + tset(c.get("UnOps", [])),
             "BinOps = " + tset(c.get("BinOps", [])),
             "NaryOps = " + tset(c.get("NaryOps", [])),
             "TerOps = " + tset(c.get("TerOps", [])),
             "Stmts = " + tset(c.get("Stmts", [])),
             "Ctrl = " + tset(c.get("Ctrl", [])),
             "NVarsU = %d" % c.get("NVarsU", 0),
             "NVarsB = %d" % c.get("NVarsB", 0),
             "InitVars = %s" % ("TRUE" if c.get("InitVars", True) else "FALSE"),
             'SigsName = "%s"' % c.get("SigsName", "none"),
             "NLocals = %d" % c.get("NLocals", 0),
             "NCtr = %d" % c.get("NCtr", 0),
             "CHECK_DEADLOCK FALSE"]
    return "\n".join(lines) + "\n"


CACHE = os.path.join(tlc.VERIF, "work", "gencache")


def _spec_digest():
    h = hashlib.sha1()
    for f in ("Gen.tla", "DefInit.tla"):
        with open(os.path.join(tlc.SPEC, f), "rb") as fh:
            h.update(fh.read())
    return h.hexdigest()


def run_builder(c, name, simulate=None, depth=None, seed=None, workers=8, timeout=900, module="Gen",
                cap=None, rnd=None, main_calls=False):
    """Returns (recipes, TLCResult).  Recipes are de-duplicated (a printing action may be evaluated twice).
    cap/rnd: keep a seeded sample of at most cap recipes; main_calls: keep only programs whose main routine
    contains a Call (both applied on the raw lines, before the expensive JSON parsing).
    res.nrecipes is the number of distinct finished programs TLC produced.
    The behaviours of Gen.tla depend only on the specification and its constants (never on /repo), so the
    printed recipes of an exhaustive run are cached under work/gencache keyed by the digest of the spec and cfg;
    setup.sh fills the cache for the quick tier.  res.cached tells whether TLC ran now."""
    cfg = cfg_text(c)
    key = hashlib.sha1((_spec_digest() + cfg + repr((simulate, depth, seed, module))).encode()).hexdigest()[:20]
    cpath = os.path.join(CACHE, key + ".gz")
    lines = None
    if os.path.exists(cpath) and not os.environ.get("VERIF_NO_GENCACHE"):
        try:
            with gzip.open(cpath, "rt") as fh:
                meta = json.loads(fh.readline())
                lines = fh.read().splitlines()
            res = tlc.TLCResult()
            res.rc, res.generated, res.distinct, res.wall, res.cached = 0, 0, 0, 0.0, True
            res.cached_stats = meta
        except (OSError, ValueError, EOFError):
            lines = None
    if lines is None:
        wd = tlc.workdir("gen_" + name)
        res = tlc.run_tlc(module, cfg, wd, workers=workers, timeout=timeout, simulate=simulate,
                          depth=depth, seed=seed, xss="64m")
        res.cached = False
        lines = sorted(set(line for line in res.out.splitlines() if line.startswith('"R|')))
        if not res.error:
            os.makedirs(CACHE, exist_ok=True)
            tmp = cpath + ".%d.tmp" % os.getpid()
            with gzip.open(tmp, "wt") as fh:
                fh.write(json.dumps({"generated": res.generated, "distinct": res.distinct, "name": name}) + "\n")
                fh.write("\n".join(lines))
            os.replace(tmp, cpath)
        res.out = res.out[-20000:]
    res.nrecipes = len(lines)
    if main_calls:
        def calls(line):
            k = line.find('\\"nvars\\"')
            return '\\"k\\":\\"Call\\"' in (line[:k] if k > 0 else line)
        lines = [ln for ln in lines if calls(ln)]
    if cap is not None and len(lines) > cap:
        lines = (rnd or __import__("random").Random(0)).sample(lines, cap)
    out = []
    for line in lines:
        try:
            out.append(json.loads(json.loads(line)[2:]))
        except ValueError:
            continue
    return out, res


def walk(node):
    yield node
    for ch in node["a"]:
        yield from walk(ch)


def prog_nodes(prog):
    yield from walk(prog["main"])
    for r in prog.get("rt", []):
        yield from walk(r["body"])
