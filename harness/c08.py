"""C08 - the Router dispatches a call to its handler iff the registration allows it.

spec -> code: TLC enumerates every per-OnCompletion call configuration (spec/RouterGen.tla: 4^5 functions from the five
approval OnCompletions to {NEVER, CALL, CREATE, ALL}); routers are built from them: one method with each
configuration (exhaustive in the thorough tier, a seeded subset in quick), multi-method routers, routers with bare
actions per OnCompletion, bare-only routers, with and without a clear-state action.  Every handler logs a marker.
code -> spec: TLC (spec/RouterCheck.tla) runs the approval and the clear-state program on spec/AVM.tla for EVERY call of
the call domain - {no arguments, each registered selector (alone and with an extra argument), an unknown selector, a
short and an empty argument} x OnCompletion 0..5 x {create, call} as initial states - and compares approval and the
logged marker with Router!Dispatch (spec/Router.tla), written from the statement of the property."""
import os
import random
import sys
from concurrent.futures import ThreadPoolExecutor

sys.path.insert(0, os.path.dirname(os.path.abspath(__file__)))
import batch as batchmod  # noqa: E402
import common  # noqa: E402
import replay  # noqa: E402
import tealtok  # noqa: E402
import tlc  # noqa: E402

pt = replay.pt
OCS = ["no_op", "opt_in", "close_out", "update_application", "delete_application"]
OCNUM = {"no_op": 0, "opt_in": 1, "close_out": 2, "update_application": 4, "delete_application": 5}
NEVER = {oc: "NEVER" for oc in OCS}


def gen_configs():
    import json
    wd = tlc.workdir("routergen")
    res = tlc.run_tlc("RouterGen", "SPECIFICATION Spec\nCHECK_DEADLOCK FALSE\n", wd, workers=4, timeout=600, xss="16m")
    out = sorted(set(line for line in res.out.splitlines() if line.startswith('"G|')))
    return [json.loads(json.loads(line)[2:]) for line in out], res


def cc(name):
    return getattr(pt.CallConfig, name)


def build_router(cfg):
    """cfg: {methods: [mc dict], bare: dict, clear: 0/1} -> (Router, selectors) or raises"""
    bare = {}
    for oc, c in cfg["bare"].items():
        if c != "NEVER":
            bare[oc] = pt.OnCompleteAction(action=pt.Log(pt.Bytes(bytes([100 + OCNUM[oc]]))), call_config=cc(c))
    router = pt.Router("r", pt.BareCallActions(**bare), clear_state=pt.Log(pt.Bytes(bytes([200]))) if cfg["clear"] else None)
    sels = []
    for i, mc in enumerate(cfg["methods"], 1):
        ns = {"pt": pt, "marker": bytes([i])}
        exec("def m%d():\n    return pt.Log(pt.Bytes(marker))\n" % i, ns)
        if cfg.get("style") == "decorator":       # the decorator takes the call configurations as keywords (omitted = NEVER once one is given)
            router.method(ns["m%d" % i], **{oc: cc(c) for oc, c in mc.items() if c != "NEVER"})
        else:
            router.add_method_handler(pt.ABIReturnSubroutine(ns["m%d" % i]), method_config=pt.MethodConfig(**{oc: cc(c) for oc, c in mc.items()}))
        sels.append(list(tealtok.selector("m%d()void" % i)))
    return router, sels


def run_check(entries, name):
    chunks = max(1, min(8, len(entries) // 12))
    size = (len(entries) + chunks - 1) // chunks
    wd = tlc.workdir("router_" + name)
    cfg = "SPECIFICATION Spec\nCONSTANTS Base = 256\nWD = 8\nMaxSteps = 4000\nCHECK_DEADLOCK FALSE\n"

    def one(ci):
        bf = os.path.join(wd, "batch_%d.json" % ci)
        tlc.dump_json(bf, entries[ci * size:(ci + 1) * size])
        res = tlc.run_tlc("RouterCheck", cfg, wd, env={"BATCH_FILE": bf}, workers=2, timeout=1700, tag="chunk%d" % ci, xmx="3g")
        os.remove(bf)
        return ci, res
    verdicts, results, errors = [], [], []
    with ThreadPoolExecutor(max_workers=chunks) as ex:
        for ci, res in ex.map(one, range(chunks)):
            results.append(res)
            if res.error:
                errors.append("chunk %d: %s\n%s" % (ci, res.error, tlc.tail(res, 20)))
            for v in res.verdicts:
                verdicts.append((ci * size + int(v[0]) - 1, v[1], int(v[2]), v[3], v[4]))
    return sorted(set(verdicts)), results, errors


def main():
    chk = common.Check("C08")
    tier, seed = common.tier(), common.seed()
    rnd = random.Random(seed)
    configs, gres = gen_configs()
    chk.add_tlc(gres)
    if gres.error or len(configs) != 1024:
        chk.machinery_failure("RouterGen produced %d configurations (%s)" % (len(configs), gres.error))
    live = [c for c in configs if any(v != "NEVER" for v in c.values())]
    cfgs = []
    single = live if tier == "thorough" else rnd.sample(live, 220)
    # configurations with only ALL / only one kind are the corner cases of the condition builder: always included
    single += [c for c in live if len(set(c.values()) - {"NEVER"}) == 1 and c not in single]
    for mc in single:
        cfgs.append({"methods": [mc], "bare": dict(NEVER), "clear": rnd.randrange(2)})
    for _ in range(40 if tier == "quick" else 400):           # several methods
        cfgs.append({"methods": [rnd.choice(live) for _ in range(rnd.choice((2, 3)))], "bare": rnd.choice(configs), "clear": rnd.randrange(2)})
    for b in (rnd.sample(live, 60) if tier == "quick" else live):     # bare-only routers
        cfgs.append({"methods": [], "bare": b, "clear": rnd.randrange(2)})
    for _ in range(40 if tier == "quick" else 300):           # one method + bare actions
        cfgs.append({"methods": [rnd.choice(live)], "bare": rnd.choice(live), "clear": 1})
    # both registration interfaces: every second router with methods uses the decorator (all of them twice in thorough)
    withm = [c for c in cfgs if c["methods"]]
    if tier == "thorough":
        cfgs += [dict(c, style="decorator") for c in withm]
    else:
        for c in withm[::2]:
            c["style"] = "decorator"
    # construction-time rules: a method that can never be called is refused
    try:
        build_router({"methods": [dict(NEVER)], "bare": dict(NEVER), "clear": 0})
        chk.report("C08/never-callable-method-accepted", "a method whose MethodConfig is NEVER everywhere was registered", {})
    except replay.PYTEAL_ERRORS:
        pass
    versions = (6, 8) if tier == "quick" else (6, 7, 8, 9, 10)
    entries, built = [], []
    for cfg in cfgs:
        try:
            router, sels = build_router(cfg)
        except replay.PYTEAL_ERRORS as e:
            chk.report("C08/router-rejected", "router configuration refused: %s" % e, {"cfg": cfg})
            continue
        texts = []
        for v in versions:
            try:
                ap, cl, _ = router.compile_program(version=v)
            except replay.PYTEAL_ERRORS as e:
                if not cfg["methods"] and all(x == "NEVER" for x in cfg["bare"].values()):
                    continue
                chk.report("C08/does-not-compile/%s" % type(e).__name__, "router does not compile at v%d: %s" % (v, e), {"cfg": cfg})
                continue
            for prog, text in (("approval", ap), ("clear", cl)):
                ins, problems = tealtok.parse_program(text)
                if problems:
                    chk.report("C08/unparsable-teal", "v%d %s: %s" % (v, prog, problems[:2]), {"cfg": cfg, "text": text[:3000]})
                texts.append({"teal": [{k: x for k, x in i.items() if k != "ln"} for i in ins], "R": {"_": {"na": 0, "nr": 0}}, "tag": "v%d" % v, "prog": prog,
                              "text": text})
        if texts:
            ecfg = {"methods": [{"sel": s, "mc": mc} for s, mc in zip(sels, cfg["methods"])], "bare": cfg["bare"], "clear": cfg["clear"]}
            entries.append({"cfg": ecfg, "texts": [{k: v for k, v in t.items() if k != "text"} for t in texts]})
            built.append((cfg, texts))
    verdicts, tres, errors = run_check(entries, "c08")
    for r in tres:
        chk.add_tlc(r)
    for e in errors:
        chk.machinery_failure(e)
    expect = sum((4 + 2 * len(e["cfg"]["methods"])) * 12 * len(e["texts"]) for e in entries)
    if len(verdicts) != expect and not errors:
        chk.machinery_failure("%d verdicts, expected %d" % (len(verdicts), expect))
    hist = {}
    for idx, callstr, k, clause, status in verdicts:
        hist[clause] = hist.get(clause, 0) + 1
        if clause not in ("ok", "inconclusive", "n/a"):
            cfg, texts = built[idx]
            chk.report("C08/%s/%s" % (clause, common.hashlib.sha1(repr(sorted(str(cfg))).encode()).hexdigest()[:8]),
                       "router %r, call %s, %s program %s: %s (run ended %s)" % (cfg, callstr, texts[k - 1]["prog"], texts[k - 1]["tag"], clause, status),
                       {"cfg": cfg, "call": callstr, "text": texts[k - 1]["text"][:6000]})
    if built:
        chk.sample({"cfg": built[0][0], "approval_v%s" % versions[0]: built[0][1][0]["text"][:700]})
    chk.cov["traces_validated_against_impl"] = sum(len(e["texts"]) for e in entries)
    chk.cov["evaluations"] = len(verdicts)
    chk.cov["distinct_nontrivial"] = len(entries)
    chk.notes.update({"router_configurations": len(entries), "verdict_histogram": hist,
                      "rule": "call configurations enumerated by TLC (RouterGen.tla, all 1024); routers: single-method (subset in quick, all in thorough), "
                              "multi-method, bare-only, method + bare; calls: the complete call domain of RouterCheck.tla as TLC initial states; "
                              "non-trivial = router configuration whose programs were run"})
    chk.assumptions += ["handlers are identified by a logged marker", "AVM.tla semantics of txn/txna/==/&&/||/assert/err/return"]
    chk.finish()


if __name__ == "__main__":
    main()
