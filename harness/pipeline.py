"""Recipe -> PyTeal -> TEAL -> TLC validation pipeline shared by the refinement-style checks."""
import json
import multiprocessing as mp
import os
import hashlib
from concurrent.futures import ThreadPoolExecutor

import batch
import gen
import replay
import tlc

NPROC = min(16, os.cpu_count() or 4)


# ---------------------------------------------------------------------------------------------
# compilation (real PyTeal, many processes)
def _compile_job(job):
    prog, settings = job
    out = []
    for st in settings:
        r = replay.compile_recipe(prog, st["v"], scratch_slots=st.get("ss"), frame_pointers=st.get("fp"),
                                  assemble_constants=st.get("ac", False), mode=st.get("mode"))
        r["st"] = st
        out.append(r)
    return out


def compile_all(jobs):
    """jobs: list of (prog, [settings]); returns list of lists of results, same order."""
    if len(jobs) < 8:
        return [_compile_job(j) for j in jobs]
    ctx = mp.get_context("fork")
    with ctx.Pool(NPROC) as pool:
        return pool.map(_compile_job, jobs, chunksize=max(1, len(jobs) // (NPROC * 8)))


def settings_tag(st):
    return "v%d%s%s%s%s" % (st["v"], "" if st.get("ss") is None else (",ss=%d" % st["ss"]),
                            "" if st.get("fp") is None else (",fp=%d" % st["fp"]), ",ac" if st.get("ac") else "",
                            "" if st.get("mode") is None else ("," + st["mode"]))


# ---------------------------------------------------------------------------------------------
# context domains
def used_args(prog):
    """app-arg index -> 'u' (only ever under btoi) or 'b'."""
    kinds = {}

    def rec(node, under_btoi):
        if node["k"] in ("TxnA",) and node["s"] == "ApplicationArgs":
            j = node["i"][0]
            k = "u" if under_btoi else "b"
            kinds[j] = "b" if kinds.get(j, k) != k else k
        if node["k"] == "LsigArg":
            j = node["i"][0]
            k = "u" if under_btoi else "b"
            kinds[j] = "b" if kinds.get(j, k) != k else k
        for ch in node["a"]:
            rec(ch, node["k"] == "Op" and node["s"] == "btoi")
    rec(prog["main"], False)
    for r in prog.get("rt", []):
        rec(r["body"], False)
    return kinds


def make_cx(prog, udom="u4", bdom="b3", **kw):
    kinds = used_args(prog)
    n = (max(kinds) + 1) if kinds else 0
    args = [(udom if kinds.get(j, "u") == "u" else bdom) for j in range(n)]
    if prog.get("argdoms") is not None:          # explicit boundary-value domains per argument (operator sweep)
        given = list(prog["argdoms"])
        args = given + args[len(given):]
    uses_gs = any(nd["k"] in ("GGet", "MV") for nd in gen.prog_nodes(prog))
    gss = [[]]
    if uses_gs:
        gss = [[], [{"k": [107], "v": {"t": "u", "v": [2]}}], [{"k": [107], "v": {"t": "b", "v": [120]}}]]
    d = dict(ocs=(0,), appids=(5,), gsizes=(1,), gss=gss, has=(1,))
    d.update(kw)
    return batch.default_cx(prog, args=args, **d)


# ---------------------------------------------------------------------------------------------
# batch assembly
def stream_key(instrs):
    """identity of an instruction stream, ignoring the pragma line and source line numbers."""
    h = hashlib.sha1()
    for ins in instrs:
        if ins["op"] == "pragma":
            continue
        h.update(json.dumps([ins["op"], ins["i"], ins["b"], ins["s"], ins["t"], ins["cs"]]).encode())
    return h.hexdigest()


def _opt_on(st):
    return st.get("ss") is True or st.get("ss") == 1 or (st.get("ss") is None and st["v"] >= 9)


def _fp_on(st):
    return st.get("fp") is True or st.get("fp") == 1 or (st.get("fp") is None and st["v"] >= 8)


def _recursive(prog):
    """1 if the call graph of the recipe's routines has a cycle (then local variables are spilled around calls)"""
    rt = prog.get("rt", [])
    calls = {}

    def walk(nd, acc):
        if nd["k"] == "Call":
            acc.add(nd["i"][0])
        for ch in nd["a"]:
            walk(ch, acc)
    for j, r in enumerate(rt, 1):
        calls[j] = set()
        walk(r["body"], calls[j])
    for j in calls:
        seen, todo = set(), list(calls[j])
        while todo:
            x = todo.pop()
            if x == j:
                return 1
            if x not in seen and x in calls:
                seen.add(x)
                todo.extend(calls[x])
    return 0


def make_entry(eid, prog, results, cx, dedupe=True):
    """One batch entry from a recipe and its compile results.  Returns (entry, texts_meta).
    Texts compiled without scratch-slot optimisation come first; an optimised text names (cmp) the text of the
    same version / frame-pointer / constant-assembly setting compiled without it (differential part, C03)."""
    texts = []
    seen = {}
    meta = []
    index_of = {}           # (v, fp_eff, ac, mode, ss_eff) -> 1-based text index
    ordered = sorted((r for r in results if "teal" in r), key=lambda r: (_opt_on(r["st"]), bool(r["st"].get("ac")), r["st"]["v"]))
    for r in ordered:
        st = r["st"]
        te = batch.text_entry(prog, r["teal"], settings_tag(st))
        key = stream_key(te["teal"])
        gkey = (st["v"], _fp_on(st), st.get("mode"))
        variant = (_opt_on(st), bool(st.get("ac")))
        if dedupe and key in seen:
            meta[seen[key]]["tags"].append(te["tag"])
            index_of.setdefault(gkey + variant, seen[key] + 1)
            continue
        seen[key] = len(texts)
        index_of.setdefault(gkey + variant, len(texts) + 1)
        cmpk = 0
        # reference: same version / convention / mode, first without constant assembly, then without optimisation
        for ref in ([(variant[0], False)] if variant[1] else []) + ([(False, False)] if variant != (False, False) else []):
            cmpk = index_of.get(gkey + ref, 0)
            if cmpk and cmpk != len(texts) + 1:
                break
            cmpk = 0
        texts.append({"teal": [{k: v for k, v in ins.items() if k != "ln"} for ins in te["teal"]],
                      "R": te["R"], "tag": te["tag"], "cmp": cmpk})
        meta.append({"tags": [te["tag"]], "problems": te["problems"], "text": r["teal"], "st": st})
    entry = {"id": eid, "rec": _recursive(prog), "recipe": {"main": prog["main"], "rt": prog.get("rt", []), "vars": prog.get("vars", [])}, "cx": cx, "texts": texts,
             "vars": prog.get("vars", []), "req": sorted(v["slot"] for v in prog.get("vars", []) if v.get("slot", -1) >= 0)}
    return entry, meta


# ---------------------------------------------------------------------------------------------
# TLC validation of batches
def run_refine(entries, name, module="Refine", max_steps=3000, chunks=None, workers_per=4, timeout=1700,
               extra_constants="", base=256, wdigits=8):
    """Runs spec/<module>.tla over the entries (split into chunks, several JVMs).  Returns
    (verdicts: dict (entry index, cid, k) -> fields, results: [TLCResult], errors: [str])."""
    if not entries:
        return {}, [], []
    if chunks is None:
        chunks = max(1, min(NPROC // workers_per, (len(entries) + 199) // 200))
    size = (len(entries) + chunks - 1) // chunks
    parts = [(ci, entries[ci * size:(ci + 1) * size]) for ci in range(chunks) if entries[ci * size:(ci + 1) * size]]
    wd = tlc.workdir("refine_" + name)
    cfg = ("SPECIFICATION Spec\nCONSTANTS Base = %d\nWD = %d\nMaxSteps = %d\n%sCHECK_DEADLOCK FALSE\n"
           % (base, wdigits, max_steps, extra_constants))

    def one(part):
        ci, ents = part
        bf = os.path.join(wd, "batch_%d.json" % ci)
        tlc.dump_json(bf, ents)
        res = tlc.run_tlc(module, cfg, wd, env={"BATCH_FILE": bf}, workers=workers_per, timeout=timeout,
                          tag="chunk%d" % ci)
        try:
            os.remove(bf)
        except OSError:
            pass
        return ci, res

    verdicts = {}
    errors = []
    results = []
    with ThreadPoolExecutor(max_workers=len(parts)) as ex:
        for ci, res in ex.map(one, parts):
            results.append(res)
            if res.error:
                errors.append("chunk %d: %s\n%s" % (ci, res.error, tlc.tail(res, 25)))
            for v in res.verdicts:
                try:
                    key = (ci * size + int(v[0]) - 1, int(v[1]), int(v[2]))
                except ValueError:
                    errors.append("unparsable verdict %r" % (v,))
                    continue
                if key in verdicts and verdicts[key] != v:
                    errors.append("conflicting verdicts for %r" % (key,))
                verdicts[key] = v
    return verdicts, results, errors


def expected_keys(entries):
    keys = set()
    for idx, e in enumerate(entries):
        n = batch.nctx(e["cx"], batch.DOMSIZES)
        for c in (e["cids"] if e.get("cids") else range(n)):
            for k in range(1, len(e["texts"]) + 1):
                keys.add((idx, c, k))
    return keys
