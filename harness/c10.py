"""C10 - every variable is its own storage cell; slot limits are enforced.

spec -> code: programs with n in {1..300} simultaneously live variables in mixtures of automatic numbering,
requested slot ids (scattered, adjacent runs, 0 and 255, duplicates), DynamicScratchVar indexing and placement
in the main routine or a subroutine: every variable gets a distinct marker, then all are read back (and
index() / DynamicScratchVar views are compared).  The parameter grid is enumerated exhaustively.
code -> spec: (a) TLC runs the emitted TEAL on spec/AVM.tla against the cell semantics of spec/PyTealSem.tla
(spec/Refine.tla): read-back = marker, index() = requested id, DynamicScratchVar reaches the cell it was set
to; all option settings are also compared with each other; (b) the compile outcome is judged by TLC on
spec/Compile.tla against the slot-limit model of spec/Accepts.tla (more than 256 cells or a duplicated
requested id must be rejected; within the limits the program must compile)."""
import os
import random
import sys

sys.path.insert(0, os.path.dirname(os.path.abspath(__file__)))
import common  # noqa: E402
import outcomes  # noqa: E402
import pipeline  # noqa: E402
import streams  # noqa: E402
from streams import N  # noqa: E402


def marker(i):
    return N("Int", n=list(divmod(1000 + i, 256)) if 1000 + i >= 256 else [1000 + i])


def make(n, req, dyn, routine, tag):
    """n variables; req: dict var -> requested id; dyn: number of DynamicScratchVars; routine: use vars inside a routine"""
    vars_ = [{"t": "u", "slot": req.get(v, -1)} for v in range(1, n + 1)]
    st = [N("Store", "n", a=[marker(v)], i=[v]) for v in range(1, n + 1)]
    mid = []
    picks = [1, n, (n + 1) // 2][:dyn]
    for d, v in enumerate(picks, 1):
        mid += [N("DynSet", "n", i=[d, v]),
                N("Assert", "n", a=[N("Op", s="==", a=[N("DynLoad", i=[d]), marker(v)])]),
                N("DynStore", "n", a=[N("Int", n=[7, d])], i=[d]),
                N("Assert", "n", a=[N("Op", s="==", a=[N("Load", i=[v]), N("Int", n=[7, d])])]),
                N("Store", "n", a=[marker(v)], i=[v])]
    chk = [N("Assert", "n", a=[N("Op", s="==", a=[N("Load", i=[v]), marker(v)])]) for v in range(1, n + 1)]
    idx = [N("Assert", "n", a=[N("Op", s="==", a=[N("Idx", i=[v]), N("Int", n=([s] if s else []))])]) for v, s in sorted(req.items())]
    lonely = []
    if req and "dup" not in tag:
        # one more user-numbered variable whose only load directly follows its only store: the optimiser must leave it alone
        w = n + 1
        vars_.append({"t": "u", "slot": 77})
        lonely = [N("Store", "n", a=[N("Int", n=[5])], i=[w]), N("Log", "n", a=[N("Op", "b", s="itob", a=[N("Load", i=[w])])])]
    body = st + mid + chk + idx + lonely
    if routine:
        rt = [{"pk": ["v"], "ret": "u", "body": N("Seq", "u", a=body + [N("PVal", i=[1])]), "locals": list(range(1, n + 1))}]
        main = N("Call", "u", a=[N("Int", n=[1])], i=[1])
    else:
        rt = []
        main = N("Seq", "u", a=body + [N("Int", n=[1])])
    return {"main": main, "rt": rt, "vars": vars_, "mode": "app", "big": tag}


def programs(tier):
    out = []
    ns = [1, 2, 5, 127, 128, 129, 200, 254, 255, 256, 257, 300] if tier == "thorough" else [1, 5, 128, 129, 255, 256, 257, 300]
    for n in ns:
        reqs = {"none": {}}
        if n >= 5:
            reqs["scattered"] = {2: 0, 4: 255, 5: 128}
            reqs["adjacent"] = {1: 3, 3: 4, 5: 5}            # a run of adjacent requested ids in the way of automatic numbering
            reqs["adjacent-high"] = {2: 254, 3: 255}
            reqs["dup"] = {2: 9, 4: 9}
        for rname, req in reqs.items():
            big = n > 129 and tier == "quick"           # programs with hundreds of variables are expensive to run: fewer variants in quick
            if big and rname not in ("none", "scattered", "adjacent"):
                continue
            for dyn in ((0, 2) if n <= 256 and not big else (0,)):
                for routine in ((False, True) if (n <= 200 and not big) or tier == "thorough" else (False,)):
                    if n + dyn + (1 if routine else 0) > 400:
                        continue
                    out.append(make(n, req, dyn, routine, "n%d-%s-dyn%d-%s" % (n, rname, dyn, "sub" if routine else "main")))
    return out


def abi_frame_programs(tier, ns=None):
    """ABI values allocated inside a subroutine: frame cells under the frame-pointer convention (at most 128 of them, the
    rest falls back to scratch slots), scratch slots otherwise.  Every value gets a marker and is read back."""
    import abiprog
    pt = abiprog.pt
    abi = pt.abi
    out = []
    for n in ns or ((5, 127, 128, 129, 140) if tier == "quick" else (1, 5, 64, 126, 127, 128, 129, 130, 140, 200)):
        for with_output in (True, False):
            def build(n=n, with_output=with_output):
                def body(output=None):
                    vs = [abi.Uint64() for _ in range(n)]
                    stmts = [v.set(1000 + i) for i, v in enumerate(vs)]
                    stmts += [pt.Assert(v.get() == pt.Int(1000 + i)) for i, v in enumerate(vs)]
                    stmts += [vs[n // 2].set(vs[0].get() + vs[n - 1].get()), pt.Assert(vs[n // 2].get() == pt.Int(2000 + n - 1))] if n > 2 else []
                    return stmts
                if with_output:
                    @pt.ABIReturnSubroutine
                    def many(*, output: abi.Uint64):
                        return pt.Seq(*body(), output.set(7))
                    r = abi.Uint64()
                    return pt.Seq(many().store_into(r), pt.Return(r.get() == pt.Int(7)))

                @pt.Subroutine(pt.TealType.uint64)
                def many2():
                    return pt.Seq(*body(), pt.Int(1))
                return many2()
            out.append(("abi-frame-locals n=%d %s" % (n, "output" if with_output else "plain"), build))
    return out


def settings(p):
    out = []
    for v in (5, 8, 9):
        for ss in (False, True):
            out.append({"v": v, "ss": ss})
            if v >= 8 and p["rt"]:
                out.append({"v": v, "ss": ss, "fp": False})
    return out


def main():
    if os.environ.get("VERIF_REPLAY"):
        streams.replay_refinement("C10", os.environ["VERIF_REPLAY"])
    chk = common.Check("C10")
    tier = common.tier()
    progs = programs(tier)
    # (b) compile outcome vs the slot-limit model
    entries, raw = outcomes.collect(progs, settings)
    verdicts, tres, errors = outcomes.judge(entries, "c10", chunks=8, per_chunk=10)
    for r in tres:
        chk.add_tlc(r)
    for e in errors:
        chk.machinery_failure(e)
    for idx, v in sorted(verdicts.items()):
        for j, c in outcomes.clauses(v):
            o = entries[idx]["outs"][j - 1]
            r = raw[idx][j - 1]
            chk.report("C10/%s/%s" % (c.split(":")[0], progs[idx]["big"]), "%s at %s: %s %s" % (c, o["tag"], r.get("err"), r.get("msg", "")[:160]),
                       {"program": progs[idx]["big"], "st": r["st"], "outcome": o})
    # (a) cell semantics of everything that compiled
    rentries, metas = [], []
    ncompiled = 0
    for p, rs in zip(progs, raw):
        ncompiled += sum(1 for r in rs if "teal" in r)
        e, meta = pipeline.make_entry(len(rentries) + 1, p, rs, pipeline.make_cx(p))
        if e["texts"]:
            rentries.append(e)
            metas.append(meta)
    rverd, rres, rerrors = pipeline.run_refine(rentries, "c10", max_steps=6000, chunks=4)
    for r in rres:
        chk.add_tlc(r)
    for e in rerrors:
        chk.machinery_failure(e)
    missing = pipeline.expected_keys(rentries) - set(rverd)
    if missing and not rerrors:
        chk.machinery_failure("%d verdicts missing, e.g. %r" % (len(missing), sorted(missing)[:3]))
    for (idx, cid, k), v in sorted(rverd.items()):
        if v[3] not in ("ok", "inconclusive"):
            e = rentries[idx]
            tag = [p["big"] for p in progs if p["main"] is e["recipe"]["main"]]
            chk.report("C10/%s/%s" % (v[3], tag[0] if tag else idx), "compiled as %s: source cells say %s, TEAL run %s" % (
                ",".join(metas[idx][k - 1]["tags"]), v[4], v[5]),
                {"program": tag, "settings": metas[idx][k - 1]["tags"], "st": metas[idx][k - 1]["st"], "verdict": v,
                 "text": metas[idx][k - 1]["text"][:4000]})
    # ABI values inside subroutines (frame cells / scratch fallback)
    import abiprog
    import batch as batchmod
    import static
    fentries, fmetas, fdescr, stat_entries = [], [], [], []
    for what, build in abi_frame_programs(tier):
        rs = []
        for st in ({"v": 8}, {"v": 8, "fp": False}, {"v": 10}, {"v": 7}):
            try:
                kw = {"optimize": abiprog.pt.OptimizeOptions(frame_pointers=False)} if st.get("fp") is False else {}
                r = abiprog.compile_ast(build(), st["v"], **kw)
            except Exception as e:  # noqa: BLE001
                r = {"err": type(e).__name__, "msg": str(e)[:200], "pyteal_error": False}
            r["st"] = st
            rs.append(r)
            if "teal" not in r:
                chk.report("C10/abi-frame-locals-do-not-compile/%s/%s" % (what, r["err"]), "%s at %r: %s" % (what, st, r.get("msg")), {"what": what, "st": st})
            else:
                t = static.text_record(r["teal"], st["v"], "app", tag=pipeline.settings_tag(st))
                t["_what"], t["_text"] = what, r["teal"]
                stat_entries.append({"texts": [t]})
        recipe = abiprog.expect_log([])
        e, meta = pipeline.make_entry(len(fentries) + 1, recipe, rs, batchmod.default_cx(recipe))
        if e["texts"]:
            fentries.append(e)
            fmetas.append(meta)
            fdescr.append(what)
    fverd, fres, ferr = pipeline.run_refine(fentries, "c10f", max_steps=20000, chunks=4)
    lines, lres, lerr = static.run([{"texts": [{k: v for k, v in t.items() if not k.startswith("_")} for t in e["texts"]]} for e in stat_entries], "c10L", spec="LSpec")
    for r in fres + lres:
        chk.add_tlc(r)
    for e in ferr + lerr:
        chk.machinery_failure(e)
    for (idx, cid, k), v in sorted(fverd.items()):
        if v[3] not in ("ok", "inconclusive"):
            chk.report("C10/%s/%s" % (v[3], fdescr[idx]), "%s compiled as %s: expected read-back of every marker, TEAL run %s" % (fdescr[idx], ",".join(fmetas[idx][k - 1]["tags"]), v[5]),
                       {"what": fdescr[idx], "st": fmetas[idx][k - 1]["st"], "verdict": v, "text": fmetas[idx][k - 1]["text"][:3000]})
    for ln in lines:
        if ln[0] == "L" and ln[3] != "":
            t = stat_entries[ln[1]]["texts"][0]
            chk.report("C10/illegal-teal/%s/%s" % (t["_what"], ln[3].split(":", 1)[1]), "%s compiled as %s: %s" % (t["_what"], t["tag"], ln[3]), {"what": t["_what"], "why": ln[3], "text": t["_text"][:3000]})
    chk.notes["abi_frame_local_programs"] = len(fentries)
    chk.sample({"program": progs[0]["big"], "teal": metas[0][0]["text"][:600] if metas else "", "verdict": rverd.get((0, 0, 1))})
    chk.sample({"programs": [p["big"] for p in progs[:40]]})
    chk.cov["traces_validated_against_impl"] = sum(len(e["outs"]) for e in entries)
    chk.cov["evaluations"] = len(rverd) + sum(len(e["outs"]) for e in entries)
    chk.cov["distinct_nontrivial"] = len(rentries)
    chk.cov["exhaustive"] = True
    chk.notes.update({"programs": len(progs), "compilations_succeeded": ncompiled,
                      "inconclusive": sum(1 for v in rverd.values() if v[3] == "inconclusive"),
                      "rule": "parameter grid n x requested-id pattern x DynamicScratchVars x placement, enumerated completely; non-trivial = "
                              "program that compiled and was executed on the AVM spec"})
    chk.assumptions += ["loads/stores/int semantics of AVM.tla", "frame-local ABI values (> 128 frame locals) are exercised by the ABI checks, not here"]
    chk.finish()


if __name__ == "__main__":
    main()
