"""Recognisers for the recorded genuine defects (known_findings.json).  Each returns the finding key when
the failing case is an instance of that defect *by its triggering input*, else None, so that any other
violation of the same property is still reported."""
import re

import tealtok


def opt_on(st):
    return st.get("ss") is True or st.get("ss") == 1 or (st.get("ss") is None and st["v"] >= 9)


def fp_on(st):
    return st.get("fp") is True or st.get("fp") == 1 or (st.get("fp") is None and st["v"] >= 8)


def a3_trigger(unopt_text, reserved=()):
    """A3: the unoptimised program has a slot with exactly one load, a `store s; load s` adjacent pair and
    at least one further store of s - the optimiser cancels the slot and deletes every store of it."""
    instrs, _ = tealtok.parse_program(unopt_text)
    loads, stores, adjacent = {}, {}, set()
    for j, ins in enumerate(instrs):
        if ins["op"] == "load":
            loads[ins["i"][0]] = loads.get(ins["i"][0], 0) + 1
            if j > 0 and instrs[j - 1]["op"] == "store" and instrs[j - 1]["i"] == ins["i"]:
                adjacent.add(ins["i"][0])
        elif ins["op"] == "store":
            stores[ins["i"][0]] = stores.get(ins["i"][0], 0) + 1
    # slots with a user-requested id are never touched by a correct optimiser, so they are not instances of A3
    return any(loads.get(s, 0) == 1 and stores.get(s, 0) >= 2 for s in adjacent if s not in reserved)


def classify_a3(entry, metas, k):
    """metas: list of text metadata of one entry; k: 1-based index of the failing text."""
    me = metas[k - 1]
    if not opt_on(me["st"]):
        return None
    no_routines = not entry["recipe"].get("rt")
    for other in metas:
        if opt_on(other["st"]):
            continue
        if (no_routines or fp_on(other["st"]) == fp_on(me["st"])) and a3_trigger(other["text"], entry.get("req", ())):
            return "A3/optimizer-deletes-every-store-of-cancelled-slot"
    return None


def classify_c02(entry, metas, k, v):
    return classify_a3(entry, metas, k)
