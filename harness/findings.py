"""Recognisers for the recorded genuine defects (known_findings.json).  Each returns the finding key when
the failing case is an instance of that defect *by its triggering input*, else None, so that any other
violation of the same property is still reported."""
import re

import tealtok


def opt_on(st):
    return st.get("ss") is True or st.get("ss") == 1 or (st.get("ss") is None and st["v"] >= 9)


def fp_on(st):
    return st.get("fp") is True or st.get("fp") == 1 or (st.get("fp") is None and st["v"] >= 8)


def a3_trigger(unopt_text, reserved=()):
    """A3: the unoptimised program has a slot with exactly one load, a `store s; load s` adjacent pair and
    at least one further store of s - the optimiser cancels the slot and deletes every store of it."""
    instrs, _ = tealtok.parse_program(unopt_text)
    loads, stores, adjacent = {}, {}, set()
    for j, ins in enumerate(instrs):
        if ins["op"] == "load":
            loads[ins["i"][0]] = loads.get(ins["i"][0], 0) + 1
            if j > 0 and instrs[j - 1]["op"] == "store" and instrs[j - 1]["i"] == ins["i"]:
                adjacent.add(ins["i"][0])
        elif ins["op"] == "store":
            stores[ins["i"][0]] = stores.get(ins["i"][0], 0) + 1
    # slots with a user-requested id are never touched by a correct optimiser, so they are not instances of A3
    return any(loads.get(s, 0) == 1 and stores.get(s, 0) >= 2 for s in adjacent if s not in reserved)


def _walk(nd):
    yield nd
    for ch in nd["a"]:
        yield from _walk(ch)


def _protected_vars(recipe):
    """variables whose slot the optimiser must leave alone because its index is taken (by-reference argument, index(),
    DynamicScratchVar target)"""
    out = set()
    rt = recipe.get("rt", [])
    reach, todo = set(), [recipe["main"]]         # only routines reachable from main are compiled
    roots = []
    while todo:
        root = todo.pop()
        roots.append(root)
        for nd in _walk(root):
            if nd["k"] == "Call" and nd["i"][0] not in reach and 1 <= nd["i"][0] <= len(rt):
                reach.add(nd["i"][0])
                todo.append(rt[nd["i"][0] - 1]["body"])
    for root in roots:
        for nd in _walk(root):
            if nd["k"] in ("Ref", "Idx"):
                out.add(nd["i"][0])
            elif nd["k"] == "DynSet":
                out.add(nd["i"][1])
    return out


def classify_a3(entry, metas, k):
    """metas: list of text metadata of one entry; k: 1-based index of the failing text."""
    me = metas[k - 1]
    if not opt_on(me["st"]):
        return None
    recipe = entry["recipe"]
    no_routines = not recipe.get("rt")
    reserved = set(entry.get("req", ()))
    prot = _protected_vars(recipe)
    for other in metas:
        if opt_on(other["st"]):
            continue
        if not (no_routines or fp_on(other["st"]) == fp_on(me["st"])):
            continue
        text = other["text"]
        if prot:
            # slots of protected variables are not instances of A3: find them by recompiling the unoptimised program with
            # those variables pinned to known slot ids
            import pipeline
            vs = [dict(v) for v in recipe.get("vars", [])]
            pinned = set()
            for j, v in enumerate(vs, 1):
                if j in prot and v.get("slot", -1) < 0:
                    v["slot"] = 230 + len(pinned)
                    pinned.add(v["slot"])
            r = pipeline.compile_all([({"main": recipe["main"], "rt": recipe.get("rt", []), "vars": vs, "mode": entry["cx"]["mode"]}, [other["st"]])])[0][0]
            if "teal" not in r:
                continue
            text = r["teal"]
            reserved = reserved | pinned | set(v["slot"] for j, v in enumerate(vs, 1) if j in prot)
        if a3_trigger(text, reserved):
            return "A3/optimizer-deletes-every-store-of-cancelled-slot"
    return None


def classify_c02(entry, metas, k, v):
    return classify_a3(entry, metas, k)


def classify_c13(spelling, what, clause):
    """recorded genuine defects of literal emission, recognised by the triggering input"""
    if spelling == "addr-reject" and clause == "malformed-accepted" and isinstance(what, str) and re.fullmatch(r"[A-Z2-7]{58}", what):
        # right length and alphabet, only the checksum is wrong
        return "A16/addr-checksum-not-verified"
    if spelling == "method" and isinstance(what, str) and any(c in what for c in '"\\\n\r'):
        return "A10/method-signature-text-not-escaped"
    return None


ZERO_OP_KINDS = {"Break", "Continue", "Nop"}


def _comment_on_zero_op(recipe):
    roots = [recipe["main"]] + [r["body"] for r in recipe.get("rt", [])]
    for root in roots:
        for nd in _walk(root):
            if nd["k"] == "Comment" and nd["s"].splitlines():
                ch = nd["a"][0]
                if ch["k"] in ZERO_OP_KINDS or (ch["k"] == "Seq" and not ch["a"]):
                    return True
    return False


def classify_c18(mode, st, recipe, plain_recipe, annotated, plain, clause):
    """recorded genuine defects: comments are ops of the block graph, so they (A17) keep an otherwise empty block alive
    and (A18) separate a store from the load that follows it, which switches the slot optimisation off at that site."""
    if mode != "comment":
        return None
    import pipeline
    if pipeline._opt_on(st):
        # attributable to the optimiser interplay iff the two texts agree once slot optimisation is off for both
        st2 = dict(st, ss=False)
        ra, rp = pipeline.compile_all([(recipe, [st2]), (plain_recipe, [st2])])
        if "teal" in ra[0] and "teal" in rp[0]:
            import tealtok
            sa, sp = (tealtok.canonical_labels(tealtok.strip_comments(r[0]["teal"])) for r in (ra, rp))
            if sa == sp or _comment_on_zero_op(recipe):
                return "A18/comment-between-store-and-load-disables-slot-optimisation"
        return None
    if _comment_on_zero_op(recipe):
        return "A17/comment-on-instruction-less-expression-keeps-a-block"
    return None


def classify_c07(what, v):
    """A8: ArrayElement.store_into has no bounds check of its own; an out-of-range index is only rejected when the
    underlying extract/getbit happens to run past the end of the encoding."""
    if "out-of-range" in what and v[3] == "verdict-class" and v[5].split("/")[0] in ("approve", "reject"):
        if "bool[" in what.split(" ")[0]:
            return "A8/bool-array-index-in-padding-bits-not-rejected"
        return "A8/array-index-past-the-end-not-rejected"
    return None


def classify_c09(what, v):
    return None


def classify_c14(what, v, recipe):
    """A9: MethodCall has no tuple-packing step: with more than 15 non-transaction arguments it emits one ApplicationArgs
    entry per argument (17+ entries with the selector), which exceeds the AVM limit of 16."""
    nargs = sum(1 for nd in recipe["main"]["a"] if nd["k"] == "ItxField" and nd["s"] == "ApplicationArgs")
    if nargs == 16 and v[3] in ("verdict-class", "itxns"):
        sig = what.split(" values#")[0]
        inner = sig[sig.index("(") + 1:sig.rindex(")")]
        depth, n = 0, 1 if inner else 0
        for ch in inner:
            depth += ch in "(["
            depth -= ch in ")]"
            n += ch == "," and depth == 0
        import re
        plain = n - len(re.findall(r"(?<![a-z])(txn|pay|axfer|appl|keyreg|acfg|afrz)(?![a-z0-9\[])", inner))
        if plain > 15:
            return "A9/inner-method-call-does-not-pack-arguments-beyond-15"
    return None


def classify_c05(prog, text, pc, why):
    """A3 (optimiser deletes every store of a cancelled slot) shows up statically as a height mismatch / wrong retsub height
    in texts compiled with slot optimisation; recognised by the same trigger as for C01/C03."""
    import pipeline
    st = text.get("_st", {})
    if pipeline._opt_on(st) and not prog.get("big") and (why.startswith("height") or why in ("retsub-height", "underflow", "type")):
        r = pipeline.compile_all([(prog, [dict(st, ss=False)])])[0][0]
        if "teal" in r and a3_trigger(r["teal"], [v["slot"] for v in prog.get("vars", []) if v.get("slot", -1) >= 0]):
            return "A3/optimizer-deletes-every-store-of-cancelled-slot"
    return None


def classify_c04(what, text, why):
    """A20: While / For are accepted below program version 4 and emit backward branches"""
    if why == "backward-branch-before-v4" and text["version"] < 4:
        return "A20/loops-emit-backward-branches-below-version-4"
    return None
