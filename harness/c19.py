"""C19 - ABI assignability implies identical encoding.

spec -> code: the type universe of spec/ARC4Gen.tla ("assign": all basic types, arrays, tuples, named tuples,
byte/uint8, address/byte[32], string/byte[] spellings, reference and transaction kinds, nested shapes; plus the
level-1 universe sampled in the thorough tier) is enumerated by TLC; for every ORDERED PAIR (a, b) the real
type_spec_is_assignable_to(a, b) is evaluated and a subroutine call passing an a-typed value to a b-typed
parameter is built.
code -> spec: TLC (spec/Assign.tla) requires  assignable(a, b) => Layout(a) = Layout(b)  with the layout normal
form of spec/ARC4.tla, and that no call with differently laid out types was accepted.  One direction only."""
import itertools
import os
import random
import sys
from concurrent.futures import ThreadPoolExecutor

sys.path.insert(0, os.path.dirname(os.path.abspath(__file__)))
import abitypes  # noqa: E402
import common  # noqa: E402
import tlc  # noqa: E402

pt = abitypes.pt
from pyteal.ast.abi.util import type_spec_is_assignable_to as assignable  # noqa: E402
abi = pt.abi


_SUBS = {}


def built(sa, sb, kb):
    """1 if a subroutine with a parameter of type b accepts an argument of type a at build time.  One subroutine
    object per target type is reused for all a (after a first, well-typed call), as user code would."""
    if isinstance(sa, (abi.ReferenceTypeSpec, abi.TransactionTypeSpec)) or isinstance(sb, (abi.ReferenceTypeSpec, abi.TransactionTypeSpec)):
        return 0
    try:
        if kb not in _SUBS:
            ns = {"pt": pt, "ann": sb.annotation_type()}
            exec("def f(x: ann):\n    return pt.Pop(x.encode())\n", ns)
            _SUBS[kb] = pt.Subroutine(pt.TealType.none)(ns["f"])
            _SUBS[kb](sb.new_instance())
        _SUBS[kb](sa.new_instance())
        return 1
    except abitypes.replay.PYTEAL_ERRORS:
        return 0
    except TypeError:
        return 0


_CVS = {}


def assigned(sa, sb, ka):
    """1 if  b.set(a value)  (not for tuple targets: their set() takes the elements) or  b.set(computed value of type a)
    is accepted at build time"""
    if isinstance(sa, (abi.ReferenceTypeSpec, abi.TransactionTypeSpec)) or isinstance(sb, (abi.ReferenceTypeSpec, abi.TransactionTypeSpec)):
        return 0
    if ka not in _CVS:
        try:
            ns = {"pt": pt, "ann": sa.annotation_type()}
            exec("def g(*, output: ann):\n    return output.decode(pt.Bytes(''))\n", ns)
            _CVS[ka] = pt.ABIReturnSubroutine(ns["g"])
        except TypeError:              # tuples of more than five elements have no annotation: no computed value of that type
            _CVS[ka] = None
    forms = [lambda: _CVS[ka]()] if _CVS[ka] is not None else []
    if not isinstance(sb, abi.TupleTypeSpec):
        forms.append(sa.new_instance)
    for mk in forms:
        try:
            sb.new_instance().set(mk())
            return 1
        except abitypes.replay.PYTEAL_ERRORS:
            pass
        except (TypeError, AttributeError, ValueError):
            pass
    return 0


def run_assign(entries, name):
    chunks = max(1, min(8, len(entries) // 1500))
    size = (len(entries) + chunks - 1) // chunks
    wd = tlc.workdir("assign_" + name)
    cfg = "SPECIFICATION Spec\nCONSTANTS Base = 256\nWD = 8\nCHECK_DEADLOCK FALSE\n"

    def one(ci):
        bf = os.path.join(wd, "batch_%d.json" % ci)
        tlc.dump_json(bf, entries[ci * size:(ci + 1) * size])
        res = tlc.run_tlc("Assign", cfg, wd, env={"BATCH_FILE": bf}, workers=2, timeout=1500, tag="chunk%d" % ci, xmx="3g")
        os.remove(bf)
        return ci, res
    verdicts, results, errors = {}, [], []
    with ThreadPoolExecutor(max_workers=chunks) as ex:
        for ci, res in ex.map(one, range(chunks)):
            results.append(res)
            if res.error:
                errors.append("chunk %d: %s\n%s" % (ci, res.error, tlc.tail(res, 20)))
            for v in res.verdicts:
                verdicts[ci * size + int(v[0]) - 1] = v[1]
    if len(verdicts) != len(entries) and not errors:
        errors.append("%d verdicts missing" % (len(entries) - len(verdicts)))
    return verdicts, results, errors


def main():
    chk = common.Check("C19")
    tier, seed = common.tier(), common.seed()
    rnd = random.Random(seed)
    types, gres = abitypes.gen("assign", 0, "c19")
    chk.add_tlc(gres)
    if gres.error:
        chk.machinery_failure("ARC4Gen failed: " + gres.error + gres.out[-800:])
    pairs = list(itertools.product(range(len(types)), repeat=2))
    if tier == "thorough":
        more, g2 = abitypes.gen("level1", 0, "c19b")
        chk.add_tlc(g2)
        base = len(types)
        types += more
        extra = [(rnd.randrange(len(types)), rnd.randrange(len(types))) for _ in range(60000)]
        pairs += extra
    specs = [abitypes.to_spec(t["t"]) for t in types]
    entries = []
    nreal = 0
    for i, j in pairs:
        real = 1 if assignable(specs[i], specs[j]) else 0
        nreal += real
        same_class = type(specs[i]) is type(specs[j])
        b = built(specs[i], specs[j], j) if (real or same_class or rnd.random() < 0.05) else 0
        entries.append({"a": types[i]["t"], "b": types[j]["t"], "real": real, "built": b, "asg": assigned(specs[i], specs[j], i)})
    verdicts, tres, errors = run_assign(entries, "c19")
    for r in tres:
        chk.add_tlc(r)
    for e in errors:
        chk.machinery_failure(e)
    hist = {}
    for idx, c in sorted(verdicts.items()):
        hist[c] = hist.get(c, 0) + 1
        if not c.startswith("ok"):
            i, j = pairs[idx]
            chk.report("C19/%s/%s->%s" % (c, types[i]["sig"] + ("#" + types[i]["t"].get("nm", "") if types[i]["t"].get("nm") else ""),
                                          types[j]["sig"] + ("#" + types[j]["t"].get("nm", "") if types[j]["t"].get("nm") else "")),
                       "%s may be passed where %s is expected, but their ARC-4 layouts differ" % (specs[i], specs[j]),
                       {"a": types[i]["t"], "b": types[j]["t"], "entry": entries[idx]})
    strict = sum(1 for idx, c in verdicts.items() if c == "ok-same" and not entries[idx]["real"])
    chk.sample({"a": types[pairs[1][0]]["sig"], "b": types[pairs[1][1]]["sig"], "real": entries[1]["real"], "verdict": verdicts.get(1)})
    acc = [idx for idx in verdicts if entries[idx]["real"]][:3]
    for idx in acc:
        chk.sample({"a": str(specs[pairs[idx][0]]), "b": str(specs[pairs[idx][1]]), "real": 1, "verdict": verdicts[idx]})
    chk.cov["traces_validated_against_impl"] = len(entries)
    chk.cov["evaluations"] = len(entries)
    chk.cov["distinct_nontrivial"] = nreal
    chk.cov["exhaustive"] = tier == "quick"
    chk.notes.update({"types": len(types), "ordered_pairs": len(pairs), "assignable_pairs": nreal, "set_accepted_pairs": sum(e["asg"] for e in entries), "verdict_histogram": hist,
                      "same_layout_but_not_assignable (stricter, allowed)": strict,
                      "rule": "all ordered pairs over the 'assign' universe of ARC4Gen.tla (+ seeded pairs over level1 in thorough); "
                              "non-trivial = pair the implementation declares assignable"})
    chk.assumptions += ["Layout() of ARC4.tla: byte=uint8, address=uint8[32], string=uint8[], field names ignored"]
    chk.finish()


if __name__ == "__main__":
    main()
