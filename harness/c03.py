"""C03 - compile options change cost and shape, never behaviour.

spec -> code: the C01 and C02 program streams of spec/Gen.tla plus optimiser-biased alphabets (several stores to
one variable, store directly followed by load, dead stores, variables with requested slot ids, variables shared
with routines), each compiled under every option setting {scratch_slots} x {frame_pointers} x version.
code -> spec: TLC (spec/Refine.tla, differential part) runs all texts of one recipe on spec/AVM.tla over the
recipe's context domain and compares them with each other: verdict, return value, logs, state writes, inner
transactions, final contents of user-numbered slots, and - between the optimised text and the unoptimised text
of the same version and calling convention - the sequence of stack snapshots taken whenever control leaves a
routine.  Equality with the source semantics (C01/C02) is judged in the same run."""
import os
import random
import sys
import time

sys.path.insert(0, os.path.dirname(os.path.abspath(__file__)))
import common  # noqa: E402
import findings  # noqa: E402
import outcomes  # noqa: E402
import pipeline  # noqa: E402
import streams  # noqa: E402


def main():
    if os.environ.get("VERIF_REPLAY"):
        streams.replay_refinement("C03", os.environ["VERIF_REPLAY"], invariant="SameBehaviour")
    chk = common.Check("C03")
    tier, seed = common.tier(), common.seed()
    rnd = random.Random(seed)
    t0 = time.time()
    progs, gres = streams.c03_programs(tier, seed, rnd)
    t1 = time.time()
    for r in gres:
        chk.add_tlc(r)
        if r.error:
            chk.machinery_failure("Gen run failed: %s\n%s" % (r.error, r.out[-1500:]))
    results = pipeline.compile_all([(p, streams.c03_settings(p)) for p in progs])
    entries, metas = [], []
    ncompiled = npairs = 0
    for p, rs in zip(progs, results):
        ncompiled += sum(1 for r in rs if "teal" in r)
        e, meta = pipeline.make_entry(len(entries) + 1, p, rs, pipeline.make_cx(p, udom="u3"))
        e["strict"] = 1          # a text still running after max_steps where the source reached a verdict is reported (Refine.Compare)
        if len(e["texts"]) >= 2:
            npairs += sum(1 for t in e["texts"] if t["cmp"])
            entries.append(e)
            metas.append(meta)
    # routines PyTeal-side declared with the ABI flavour / return type anytype (recursion, private variables): harness/handprogs.py
    import handprogs
    for name, recipe, rs in handprogs.family(tier):
        recipe["big"] = name
        progs.append(recipe)
        ncompiled += sum(1 for r in rs if "teal" in r)
        for r in rs:
            if "teal" not in r:
                chk.report("C03/does-not-compile/%s/%s" % (name, r["err"]), "%s at %s: %s" % (name, pipeline.settings_tag(r["st"]), r.get("msg")), {"what": name, "st": r["st"]})
        e, meta = pipeline.make_entry(len(entries) + 1, recipe, rs, pipeline.make_cx(recipe, udom="u3"))
        e["strict"] = 1
        if e["texts"]:
            entries.append(e)
            metas.append(meta)
    t2 = time.time()
    verdicts, tres, errors = pipeline.run_refine(entries, "c03", max_steps=3000)
    t3 = time.time()
    chk.notes["phase_seconds"] = {"generate": round(t1 - t0, 1), "replay_compile": round(t2 - t1, 1), "tlc_validate": round(t3 - t2, 1)}
    for r in tres:
        chk.add_tlc(r)
    for e in errors:
        chk.machinery_failure(e)
    missing = pipeline.expected_keys(entries) - set(verdicts)
    if missing and not errors:
        chk.machinery_failure("%d verdicts missing, e.g. %r" % (len(missing), sorted(missing)[:3]))
    # only the differential clauses are C03's; disagreement with the source semantics is reported by C01/C02
    # (the last verdict field is the differential clause on its own: it is judged even when the text also disagrees with the source)
    diff = {}
    for k, v in verdicts.items():
        d = v[10] if len(v) > 10 else ""
        if d.startswith("diff-"):
            diff[k] = v[:3] + [d] + v[4:]
        elif v[3] in ("ok", "inconclusive") or v[3].startswith("diff-"):
            diff[k] = v
    streams.judge_refinement(chk, "C03", entries, metas, diff,
                             classify=lambda e, ms, k, v: findings.classify_a3(e, ms, k))
    chk.cov["traces_validated_against_impl"] = len(progs) + ncompiled
    chk.cov["evaluations"] = len(verdicts)
    chk.notes.update({"recipes": len(progs), "recipes_with_two_or_more_distinct_texts": len(entries),
                      "optimised_vs_unoptimised_pairs": npairs, "compilations_succeeded": ncompiled,
                      "source_semantics_disagreements_left_to_C01_C02": len(verdicts) - len(diff),
                      "rule": "recipes from spec/Gen.tla (BFS per alphabet, sampled); an evaluation is one (recipe, context, text) run; "
                              "non-trivial = distinct instruction stream that executed a branch, call, store or effect"})
    if npairs == 0:
        chk.machinery_failure("vacuous: no optimised/unoptimised pair differed in text")
    chk.assumptions += ["the reference of each pair is the text compiled with scratch_slots off at the same version and calling convention",
                        "bounded program size and context domains"]
    chk.finish()


if __name__ == "__main__":
    main()
