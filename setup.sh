#!/bin/sh
# Offline setup: syntax/semantic analysis of every specification module, the BigNat self-test, and the
# generator cache for the quick tier (behaviours of spec/Gen.tla; independent of /repo).
set -e
cd "$(dirname "$0")"
mkdir -p work evidence replays
for f in spec/*.tla; do
  java -cp /opt/veriftools/tla/tla2tools.jar:/opt/veriftools/tla/CommunityModules-deps.jar -DTLA-Library=spec tla2sany.SANY "$f" > work/sany.out 2>&1 || { cat work/sany.out; echo "SANY failed on $f"; exit 2; }
  if grep -q "error" work/sany.out && ! grep -q "Semantic processing of module" work/sany.out; then cat work/sany.out; exit 2; fi
done
python3 harness/selftest_bignat.py
PYTHONDONTWRITEBYTECODE=1 PYTHONHASHSEED=0 /venv/bin/python -B harness/calibrate.py
PYTHONDONTWRITEBYTECODE=1 PYTHONHASHSEED=0 /venv/bin/python -B harness/pregen.py
echo "setup ok"
